// Command symgo: bounded symbolic execution of go-cty harnesses, decided by an SMT solver.
package main

import (
	"encoding/json"
	"flag"
	"fmt"
	"os"
	"path/filepath"
	"runtime/debug"
	"runtime/pprof"
	"strconv"

	"symgo/interp"
)

func main() {
	if len(os.Args) >= 3 && os.Args[1] == "replay" {
		cfg := &interp.Config{Repo: envOr("VERIF_REPO", "/repo"), Verif: envOr("VERIF_DIR", "/verif")}
		os.Exit(interp.ReplayFile(cfg, os.Args[2]))
	}
	if len(os.Args) < 3 || os.Args[1] != "check" {
		fmt.Fprintln(os.Stderr, "usage: symgo check <PROPERTY> [-tier quick|thorough] [-only harness] [-workers n] [-repo dir] [-verif dir]")
		os.Exit(2)
	}
	prop := os.Args[2]
	if os.Getenv("GOGC") == "" {
		debug.SetGCPercent(300)
	}
	fs := flag.NewFlagSet("check", flag.ExitOnError)
	cfg := &interp.Config{}
	fs.StringVar(&cfg.Tier, "tier", envOr("VERIF_TIER", "quick"), "quick or thorough")
	fs.StringVar(&cfg.Repo, "repo", envOr("VERIF_REPO", "/repo"), "repository root")
	fs.StringVar(&cfg.Verif, "verif", envOr("VERIF_DIR", "/verif"), "verification directory")
	fs.StringVar(&cfg.EvDir, "evdir", envOr("VERIF_EVDIR", ""), "evidence directory (default <verif>/evidence)")
	fs.StringVar(&cfg.Only, "only", "", "run only this harness")
	fs.IntVar(&cfg.Workers, "workers", 0, "number of workers (default: CPUs)")
	fs.BoolVar(&cfg.Trace, "trace", false, "trace instructions")
	fs.StringVar(&cfg.SolverLog, "solverlog", "", "directory for solver transcripts")
	fs.StringVar(&cfg.Solver, "solver", "", "z3-new (default), z3, cvc5")
	cpuprof := fs.String("cpuprofile", "", "write a CPU profile")
	fs.Parse(os.Args[3:])
	if *cpuprof != "" {
		f, err := os.Create(*cpuprof)
		if err == nil {
			pprof.StartCPUProfile(f)
			defer pprof.StopCPUProfile()
		}
	}
	if s := os.Getenv("VERIF_SEED"); s != "" {
		cfg.Seed, _ = strconv.ParseInt(s, 10, 64)
	}
	if cfg.Tier != "quick" && cfg.Tier != "thorough" {
		cfg.Tier = "quick"
	}
	var props map[string]*interp.PropSpec
	mustJSON(filepath.Join(cfg.Verif, "props.json"), &props)
	spec := props[prop]
	if spec == nil {
		fmt.Fprintf(os.Stderr, "unknown property %s\n", prop)
		os.Exit(2)
	}
	spec.ID = prop
	var kf struct {
		Known []interp.KnownFinding `json:"known"`
	}
	if _, err := os.Stat(filepath.Join(cfg.Verif, "known_findings.json")); err == nil {
		mustJSON(filepath.Join(cfg.Verif, "known_findings.json"), &kf)
	}
	code := interp.RunProperty(cfg, spec, kf.Known)
	pprof.StopCPUProfile()
	os.Exit(code)
}

func envOr(k, d string) string {
	if v := os.Getenv(k); v != "" {
		return v
	}
	return d
}

func mustJSON(path string, v interface{}) {
	b, err := os.ReadFile(path)
	if err != nil {
		fmt.Fprintln(os.Stderr, err)
		os.Exit(2)
	}
	if err := json.Unmarshal(b, v); err != nil {
		fmt.Fprintf(os.Stderr, "%s: %v\n", path, err)
		os.Exit(2)
	}
}
