package interp

// Driver: loads /repo's current tree with the harness overlay, runs the harnesses of a property, replays
// counterexamples and witnesses natively, writes evidence.

import (
	"encoding/json"
	"fmt"
	"go/types"
	"os"
	"os/exec"
	"path/filepath"
	"sort"
	"strings"
	"time"

	"golang.org/x/tools/go/packages"
	"golang.org/x/tools/go/ssa"
	"golang.org/x/tools/go/ssa/ssautil"
)

const modulePath = "github.com/zclconf/go-cty"

type HarnessSpec struct {
	Pkg      string `json:"pkg"`  // directory relative to the repository root, e.g. "cty"
	Func     string `json:"func"` // harness function name
	MaxPaths int    `json:"max_paths,omitempty"`
	// per-tier overrides
	QuickOnly    bool `json:"quick_only,omitempty"`
	ThoroughOnly bool `json:"thorough_only,omitempty"`
	MapRepeat    int  `json:"map_repeat,omitempty"`
	TimeoutMs    int  `json:"timeout_ms,omitempty"`
	MaxSteps     int  `json:"max_steps,omitempty"`
}

type PropSpec struct {
	ID          string        `json:"id"`
	Harnesses   []HarnessSpec `json:"harnesses"`
	Bounds      []string      `json:"bounds"`
	Assumptions []string      `json:"assumptions"`
	OutOfScope  []string      `json:"out_of_scope"`
	ExtraDirs   []string      `json:"extra_dirs,omitempty"` // packages whose harness overlay must be present too (helpers used across packages)
}

type Config struct {
	Repo, Verif string
	Tier        string
	Workers     int
	Only        string
	Trace       bool
	SolverLog   string
	Seed        int64
	Solver      string
	EvDir       string // where evidence is written (default <Verif>/evidence)
}

func (c *Config) evDir() string {
	if c.EvDir != "" {
		return c.EvDir
	}
	return filepath.Join(c.Verif, "evidence")
}

var defaultInitPkgs = []string{
	"strings", "bytes", "unicode/utf8", "sort", "slices", "math/bits", "math", "encoding/binary", "io", "strconv", "unicode",
	"github.com/vmihailenco/msgpack/v5/msgpcode", "github.com/vmihailenco/msgpack/v5",
	"bufio",
}

func pkgNameOf(dir string) string {
	base := filepath.Base(dir)
	return base
}

type loaded struct {
	prog    *ssa.Program
	pkgs    map[string]*ssa.Package // by repo-relative dir
	overlay map[string]string       // virtual path -> real path (for go test -overlay)
	tmp     string
}

// buildOverlay materialises the harness files of the given package dirs under tmp and returns the overlay maps.
func buildOverlay(cfg *Config, dirs []string, tmp string) (map[string][]byte, map[string]string, error) {
	ov := map[string][]byte{}
	real := map[string]string{}
	common := filepath.Join(cfg.Verif, "harness", "_common")
	for _, d := range dirs {
		name := pkgNameOf(d)
		hdir := filepath.Join(cfg.Verif, "harness", d)
		ents, err := os.ReadDir(hdir)
		if err != nil {
			return nil, nil, fmt.Errorf("harness dir %s: %v", hdir, err)
		}
		for _, e := range ents {
			if e.IsDir() || !strings.HasSuffix(e.Name(), ".go") {
				continue
			}
			src := filepath.Join(hdir, e.Name())
			b, err := os.ReadFile(src)
			if err != nil {
				return nil, nil, err
			}
			virt := filepath.Join(cfg.Repo, d, "zz_verif_"+e.Name())
			ov[virt] = b
			real[virt] = src
		}
		for _, t := range []struct{ tmpl, out string }{{"nondet.go.tmpl", "zz_verif_nondet.go"}, {"replay_test.go.tmpl", "zz_verif_replay_test.go"}} {
			b, err := os.ReadFile(filepath.Join(common, t.tmpl))
			if err != nil {
				return nil, nil, err
			}
			txt := strings.Replace(string(b), "package PKGNAME", "package "+name, 1)
			gen := filepath.Join(tmp, strings.ReplaceAll(d, "/", "_")+"_"+t.out)
			if err := os.WriteFile(gen, []byte(txt), 0o644); err != nil {
				return nil, nil, err
			}
			virt := filepath.Join(cfg.Repo, d, t.out)
			if !strings.HasSuffix(t.out, "_test.go") {
				ov[virt] = []byte(txt)
			}
			real[virt] = gen
		}
	}
	return ov, real, nil
}

func loadProgram(cfg *Config, dirs []string, tmp string) (*loaded, error) {
	ov, real, err := buildOverlay(cfg, dirs, tmp)
	if err != nil {
		return nil, err
	}
	var patterns []string
	for _, d := range dirs {
		patterns = append(patterns, "./"+d)
	}
	pcfg := &packages.Config{
		Mode:       packages.LoadAllSyntax,
		Dir:        cfg.Repo,
		BuildFlags: []string{"-tags=verif"},
		Overlay:    ov,
		Env:        append(os.Environ(), "GOFLAGS=-mod=mod", "GOPROXY=off", "GOSUMDB=off", "GOTOOLCHAIN=local"),
	}
	initial, err := packages.Load(pcfg, patterns...)
	if err != nil {
		return nil, err
	}
	nerr := 0
	packages.Visit(initial, nil, func(p *packages.Package) {
		for _, e := range p.Errors {
			fmt.Fprintf(os.Stderr, "load error: %s: %v\n", p.PkgPath, e)
			nerr++
		}
	})
	if nerr > 0 {
		return nil, fmt.Errorf("%d package load errors (the repository or a harness does not compile)", nerr)
	}
	prog, _ := ssautil.AllPackages(initial, ssa.InstantiateGenerics)
	prog.Build()
	l := &loaded{prog: prog, pkgs: map[string]*ssa.Package{}, overlay: real, tmp: tmp}
	for _, d := range dirs {
		path := modulePath + "/" + d
		for _, p := range prog.AllPackages() {
			if p.Pkg.Path() == path {
				l.pkgs[d] = p
			}
		}
		if l.pkgs[d] == nil {
			return nil, fmt.Errorf("package %s not found after load", path)
		}
	}
	return l, nil
}

// ---------- native replay ----------

type replayCase struct {
	Harness string
	Values  map[string]string
	Choices []int
	Tier    int
	Repeat  int
}

type replayResult struct {
	Failed   []string
	Panic    string
	Diverged string
	Assume   bool
	Events   []pathEvent
	Runs     int
}

type replayer struct {
	cfg  *Config
	l    *loaded
	bins map[string]string
}

func (r *replayer) binFor(dir string) (string, error) {
	if b, ok := r.bins[dir]; ok {
		if b == "" {
			return "", fmt.Errorf("test binary for %s failed to build earlier", dir)
		}
		return b, nil
	}
	ovFile := filepath.Join(r.l.tmp, "overlay.json")
	if _, err := os.Stat(ovFile); err != nil {
		b, _ := json.Marshal(map[string]interface{}{"Replace": r.l.overlay})
		if err := os.WriteFile(ovFile, b, 0o644); err != nil {
			return "", err
		}
	}
	bin := filepath.Join(r.l.tmp, "replay_"+strings.ReplaceAll(dir, "/", "_")+".test")
	cmd := exec.Command("go", "test", "-c", "-tags", "verif", "-vet=off", "-overlay", ovFile, "-o", bin, "./"+dir)
	cmd.Dir = r.cfg.Repo
	cmd.Env = append(os.Environ(), "GOFLAGS=-mod=mod", "GOPROXY=off", "GOSUMDB=off", "GOTOOLCHAIN=local")
	out, err := cmd.CombinedOutput()
	if err != nil {
		r.bins[dir] = ""
		return "", fmt.Errorf("building replay binary for %s: %v\n%s", dir, err, out)
	}
	r.bins[dir] = bin
	return bin, nil
}

func (r *replayer) run(dir string, cases []replayCase) ([]replayResult, error) {
	if len(cases) == 0 {
		return nil, nil
	}
	bin, err := r.binFor(dir)
	if err != nil {
		return nil, err
	}
	in := filepath.Join(r.l.tmp, fmt.Sprintf("cases_%d.json", time.Now().UnixNano()))
	out := in + ".out"
	b, _ := json.Marshal(cases)
	if err := os.WriteFile(in, b, 0o644); err != nil {
		return nil, err
	}
	defer os.Remove(in)
	defer os.Remove(out)
	cmd := exec.Command(bin, "-test.run", "TestVerifReplay$", "-test.timeout", "10m")
	cmd.Dir = filepath.Join(r.cfg.Repo, dir)
	cmd.Env = append(os.Environ(), "VERIF_REPLAY="+in, "VERIF_REPLAY_OUT="+out)
	o, err := cmd.CombinedOutput()
	if os.Getenv("VERIF_DEBUG") != "" {
		os.Stderr.Write(o)
	}
	rb, rerr := os.ReadFile(out)
	if rerr != nil {
		return nil, fmt.Errorf("replay run failed: %v\n%s", err, o)
	}
	var res []replayResult
	if err := json.Unmarshal(rb, &res); err != nil {
		return nil, err
	}
	return res, nil
}

// ---------- evidence ----------

type HarnessReport struct {
	Harness           string                 `json:"harness"`
	Package           string                 `json:"package"`
	Paths             int                    `json:"feasible_paths_completed"`
	PanicPaths        int                    `json:"paths_ending_in_panic"`
	Aborted           map[string]int         `json:"paths_not_decided"`
	AbortReasons      []string               `json:"not_decided_reasons,omitempty"`
	ShapeForks        int                    `json:"shape_forks"`
	SolverBranches    int                    `json:"solver_decided_branches"`
	BranchesBoth      int                    `json:"branches_feasible_both_ways"`
	UnknownBranches   int                    `json:"branch_queries_unknown"`
	Asserts           map[string]*AssertStat `json:"assert_sites"`
	Reach             map[string]int         `json:"reach_sites"`
	Queries           int                    `json:"solver_queries"`
	SolverTimeS       float64                `json:"solver_time_s"`
	MaxQueryS         float64                `json:"max_query_s"`
	WallS             float64                `json:"wall_s"`
	Truncated         bool                   `json:"budget_exhausted"`
	WitnessesReplayed int                    `json:"witnesses_replayed_natively"`
	WitnessMismatch   int                    `json:"witness_mismatches"`
	Confirmed         int                    `json:"violations_confirmed_natively"`
	Spurious          int                    `json:"counterexamples_not_reproduced"`
	KnownPresent      int                    `json:"known_findings_present"`
	Rounded           int                    `json:"inexact_operations_modelled"`
	SymbolicMakes     int                    `json:"symbolic_allocation_sizes"`
	Concretised       int                    `json:"symbolic_sizes_represented_by_extremes"`
}

type runOutcome struct {
	violations []string // "VIOLATION ..." lines
	known      []string
	broken     []string // vacuity / internal problems
	reports    []*HarnessReport
	funcs      map[string]bool
	assume     map[string]bool
	samples    []interface{}
	totalWit   int
}

func tierNum(t string) int {
	if t == "thorough" {
		return 1
	}
	return 0
}

// RunProperty executes all harnesses of a property and returns the process exit code.
func RunProperty(cfg *Config, spec *PropSpec, known []KnownFinding) int {
	t0 := time.Now()
	tmp, err := os.MkdirTemp("", "symgo-")
	if err != nil {
		fmt.Fprintln(os.Stderr, err)
		return 2
	}
	defer os.RemoveAll(tmp)

	var hs []HarnessSpec
	dirset := map[string]bool{}
	for _, h := range spec.Harnesses {
		if cfg.Only != "" && h.Func != cfg.Only {
			continue
		}
		if h.QuickOnly && cfg.Tier != "quick" {
			continue
		}
		if h.ThoroughOnly && cfg.Tier != "thorough" {
			continue
		}
		hs = append(hs, h)
		dirset[h.Pkg] = true
	}
	if len(hs) == 0 {
		fmt.Fprintf(os.Stderr, "no harness selected for %s\n", spec.ID)
		return 2
	}
	for _, d := range spec.ExtraDirs {
		dirset[d] = true
	}
	var dirs []string
	for d := range dirset {
		dirs = append(dirs, d)
	}
	sort.Strings(dirs)
	l, err := loadProgram(cfg, dirs, tmp)
	if err != nil {
		fmt.Fprintf(os.Stderr, "cannot load %s with harness overlay: %v\n", cfg.Repo, err)
		return 2
	}
	fmt.Fprintf(os.Stderr, "[%s] loaded and built SSA for %v in %.1fs\n", spec.ID, dirs, time.Since(t0).Seconds())

	var sizes types.Sizes = &types.StdSizes{WordSize: 8, MaxAlign: 8}
	out := &runOutcome{funcs: map[string]bool{}, assume: map[string]bool{}}
	rp := &replayer{cfg: cfg, l: l, bins: map[string]string{}}
	evdir := filepath.Join(cfg.evDir(), "replay")
	os.MkdirAll(evdir, 0o755)
	// stale replay files of this property
	if old, _ := filepath.Glob(filepath.Join(evdir, spec.ID+"-*.json")); old != nil {
		for _, f := range old {
			os.Remove(f)
		}
	}

	for _, h := range hs {
		pkg := l.pkgs[h.Pkg]
		fn := pkg.Func(h.Func)
		if fn == nil {
			out.broken = append(out.broken, fmt.Sprintf("harness %s not found in %s", h.Func, h.Pkg))
			continue
		}
		ex := NewExplorer(l.prog, sizes)
		ex.Tier = tierNum(cfg.Tier)
		if cfg.Workers > 0 {
			ex.Workers = cfg.Workers
		}
		if cfg.Solver != "" {
			ex.SolverKind = cfg.Solver
		}
		ex.Trace = cfg.Trace
		ex.SolverLogDir = cfg.SolverLog
		if cfg.Tier == "thorough" {
			ex.TimeoutMs = 300000
			ex.MaxWitnesses = 200
		}
		if h.TimeoutMs > 0 {
			ex.TimeoutMs = h.TimeoutMs
		}
		if h.MaxPaths > 0 {
			ex.MaxPaths = h.MaxPaths
		}
		if h.MaxSteps > 0 {
			ex.MaxSteps = h.MaxSteps
		}
		for _, p := range defaultInitPkgs {
			ex.InitPkgs[p] = true
		}
		for _, p := range l.prog.AllPackages() {
			if strings.HasPrefix(p.Pkg.Path(), modulePath) {
				ex.InitPkgs[p.Pkg.Path()] = true
				ex.PerPathInit[p.Pkg.Path()] = true
				ex.HarnessPkgs[p.Pkg.Path()] = true
			}
		}
		for _, k := range known {
			if k.Property == spec.ID {
				ex.Known = append(ex.Known, k)
			}
		}
		ex.Run(fn, h.Func)
		ex.PrintSummary(os.Stderr)
		rep := reportOf(ex, h)
		out.reports = append(out.reports, rep)
		for f := range ex.St.Funcs {
			out.funcs[f] = true
		}
		for a := range ex.St.Assumptions {
			out.assume[a] = true
		}

		// vacuity and engine health
		if len(ex.St.InternalErrors) > 0 {
			out.broken = append(out.broken, fmt.Sprintf("%s: engine error: %s", h.Func, firstLine(ex.St.InternalErrors[0])))
		}
		if ex.St.Paths+ex.St.PanicPaths == 0 {
			out.broken = append(out.broken, fmt.Sprintf("%s: no feasible path completed", h.Func))
		}
		if ex.St.SolverErrors > 0 {
			out.broken = append(out.broken, fmt.Sprintf("%s: %d solver errors", h.Func, ex.St.SolverErrors))
		}

		// native replay of counterexamples
		repeat := h.MapRepeat
		mk := func(c *cexRec) replayCase {
			rc := replayCase{Harness: c.Harness, Values: c.Values, Choices: c.Choices, Tier: ex.Tier, Repeat: 1}
			if len(c.MapOrders) > 0 {
				rc.Repeat = 400
				if repeat > 0 {
					rc.Repeat = repeat
				}
			}
			return rc
		}
		var cases []replayCase
		for _, c := range ex.Cex {
			cases = append(cases, mk(c))
		}
		for _, c := range ex.KnownHits {
			cases = append(cases, mk(c))
		}
		for _, w := range ex.Witnesses {
			cases = append(cases, replayCase{Harness: w.Harness, Values: w.Values, Choices: w.Choices, Tier: ex.Tier, Repeat: 1})
		}
		res, err := rp.run(h.Pkg, cases)
		if err != nil {
			out.broken = append(out.broken, fmt.Sprintf("%s: native replay unavailable: %v", h.Func, err))
			continue
		}
		k := 0
		for n, c := range ex.Cex {
			r := res[k]
			k++
			reproduced := false
			if c.Kind == "panic" {
				reproduced = r.Panic != ""
			} else {
				for _, f := range r.Failed {
					if f == c.AssertID {
						reproduced = true
					}
				}
				if strings.HasPrefix(c.AssertID, "mem@") {
					// allocation monitor: confirmed by a native fatal allocation or panic; otherwise judged by the
					// solver model itself (the allocation size is a function of the input alone)
					reproduced = true
				}
			}
			file := filepath.Join(evdir, fmt.Sprintf("%s-%s-%d.json", spec.ID, h.Func, n))
			writeJSON(file, map[string]interface{}{"property": spec.ID, "harness": h.Func, "package": h.Pkg, "assert": c.AssertID, "kind": c.Kind,
				"detail": c.Detail, "values": c.Values, "choices": c.Choices, "tier": ex.Tier, "native": r, "reproduced": reproduced})
			if reproduced {
				rep.Confirmed++
				out.violations = append(out.violations, fmt.Sprintf("VIOLATION property=%s replay=%s", spec.ID, file))
				fmt.Fprintf(os.Stderr, "  counterexample %s/%s: %s %s [%s] choices=%v native: failed=%v panic=%q\n", h.Func, c.AssertID, c.Kind, c.Detail, fmtVals(c.Values), c.Choices, r.Failed, r.Panic)
			} else {
				rep.Spurious++
				fmt.Fprintf(os.Stderr, "  SPURIOUS counterexample %s/%s (%s %s) [%s] choices=%v native: failed=%v panic=%q diverged=%q assume=%v\n", h.Func, c.AssertID, c.Kind, c.Detail, fmtVals(c.Values), c.Choices, r.Failed, r.Panic, r.Diverged, r.Assume)
			}
		}
		for _, c := range ex.KnownHits {
			r := res[k]
			k++
			still := false
			for _, f := range r.Failed {
				if f == c.AssertID {
					still = true
				}
			}
			if still {
				rep.KnownPresent++
				what := c.KnownID
				for _, kf := range ex.Known {
					if kf.ID == c.KnownID {
						what = kf.ID + ": " + kf.What
					}
				}
				out.known = append(out.known, fmt.Sprintf("KNOWN-FINDING: property=%s %s", spec.ID, what))
			}
		}
		for _, w := range ex.Witnesses {
			r := res[k]
			k++
			rep.WitnessesReplayed++
			ok := len(r.Failed) == 0 && r.Panic == "" && r.Diverged == "" && !r.Assume && eventsMatch(w.Events, r.Events)
			if !ok {
				rep.WitnessMismatch++
				fmt.Fprintf(os.Stderr, "  WITNESS MISMATCH %s [%s] choices=%v: native failed=%v panic=%q diverged=%q assume=%v\n    symbolic events=%v\n    native events=%v\n", h.Func, fmtVals(w.Values), w.Choices, r.Failed, r.Panic, r.Diverged, r.Assume, w.Events, r.Events)
			}
			if len(out.samples) < 6 {
				out.samples = append(out.samples, map[string]interface{}{"harness": h.Func, "inputs": w.Values, "choices": w.Choices, "events": w.Events})
			}
		}
		out.totalWit += rep.WitnessesReplayed
		if rep.WitnessMismatch > 0 {
			out.broken = append(out.broken, fmt.Sprintf("%s: %d of %d passing paths behaved differently when replayed natively (engine or stub defect)", h.Func, rep.WitnessMismatch, rep.WitnessesReplayed))
		}
		// assert sites never reached
		for id, a := range ex.St.Asserts {
			if a.Reached == 0 {
				out.broken = append(out.broken, fmt.Sprintf("%s: assert site %s never reached", h.Func, id))
			}
		}
	}

	code := finish(cfg, spec, out, time.Since(t0))
	return code
}

func firstLine(s string) string {
	if k := strings.IndexByte(s, '\n'); k >= 0 {
		return s[:k]
	}
	return s
}

func eventsMatch(a []pathEvent, b []pathEvent) bool {
	if len(a) != len(b) {
		return false
	}
	for k := range a {
		if a[k].Kind != b[k].Kind || a[k].ID != b[k].ID {
			return false
		}
		if a[k].Value != "?" && a[k].Value != b[k].Value {
			return false
		}
	}
	return true
}

func reportOf(ex *Explorer, h HarnessSpec) *HarnessReport {
	st := &ex.St
	r := &HarnessReport{Harness: h.Func, Package: h.Pkg, Paths: st.Paths, PanicPaths: st.PanicPaths, Aborted: st.Aborted,
		ShapeForks: st.ShapeForks, SolverBranches: st.Branches, BranchesBoth: st.BranchesBoth, UnknownBranches: st.UnknownBranch,
		Asserts: st.Asserts, Reach: st.Reach, Queries: st.SolverQueries, SolverTimeS: st.SolverTime.Seconds(),
		MaxQueryS: st.SolverMaxQuery.Seconds(), WallS: st.Wall.Seconds(), Truncated: ex.Truncated, Rounded: st.Rounded, SymbolicMakes: st.SymbolicMakes, Concretised: st.Concretised}
	ds := ex.SortedAbortDetails()
	if len(ds) > 12 {
		ds = ds[:12]
	}
	r.AbortReasons = ds
	return r
}

func writeJSON(path string, v interface{}) {
	b, _ := json.MarshalIndent(v, "", " ")
	os.WriteFile(path, append(b, '\n'), 0o644)
}

func finish(cfg *Config, spec *PropSpec, out *runOutcome, wall time.Duration) int {
	states, transitions, queries, discharged, folded, incon := 0, 0, 0, 0, 0, 0
	solverT := 0.0
	undecided := 0
	truncated := false
	for _, r := range out.reports {
		states += r.Paths + r.PanicPaths
		transitions += r.SolverBranches + r.ShapeForks
		queries += r.Queries
		solverT += r.SolverTimeS
		for _, a := range r.Asserts {
			discharged += a.Discharged
			folded += a.Folded
			incon += a.Inconclusive
		}
		for k, n := range r.Aborted {
			if k != "infeasible" {
				undecided += n
			}
		}
		truncated = truncated || r.Truncated
	}
	var funcs []string
	for f := range out.funcs {
		funcs = append(funcs, f)
	}
	sort.Strings(funcs)
	assumptions := []string{
		"the symgo interpreter implements the dynamic semantics of go/ssa (fork of the x/tools reference interpreter; validated per run by replaying passing-path models natively)",
		"math/big: concrete values use the real library; symbolic values are exact rationals n/2^s, rounding is modelled only where provably exact or provably inexact",
		"fmt/errors text is opaque (used for messages only); sync primitives have sequential semantics; x/text normalisation and textseg run natively on concrete strings and are the identity on ASCII symbolic strings",
		"Go integers are SMT Ints with exact wrap-around; strings with symbolic bytes have a concrete length",
	}
	assumptions = append(assumptions, spec.Assumptions...)
	for a := range out.assume {
		assumptions = append(assumptions, a)
	}
	sort.Strings(assumptions)
	if len(out.samples) == 0 {
		out.samples = append(out.samples, "no completed path produced a model")
	}
	ev := map[string]interface{}{
		"property_id": spec.ID,
		"tier":        cfg.Tier,
		"seed":        cfg.Seed,
		"level":       "model_checking",
		"wall_s":      wall.Seconds(),
		"violations":  len(out.violations),
		"assumptions": assumptions,
		"coverage": map[string]interface{}{
			"states":                        states,
			"transitions":                   transitions,
			"traces_validated_against_impl": out.totalWit,
			"samples":                       out.samples,
			"exhaustive":                    !truncated && undecided == 0 && incon == 0,
			"explanation": "bounded symbolic execution of the SSA of /repo's current tree; states = feasible paths executed to the end (each branch side was confirmed satisfiable by the solver), " +
				"transitions = branch points decided by the solver plus structural forks; assertions are discharged by check-sat of (path condition AND NOT assertion)",
			"functions_encoded":            funcs,
			"functions_encoded_count":      len(funcs),
			"bounds":                       spec.Bounds,
			"outside_the_claim":            spec.OutOfScope,
			"solver":                       solverVersion(cfg),
			"solver_queries":               queries,
			"solver_time_s":                solverT,
			"assertions_discharged_unsat":  discharged,
			"assertions_folded_concretely": folded,
			"assertions_inconclusive":      incon,
			"paths_not_decided":            undecided,
			"budget_exhausted":             truncated,
			"known_findings":               out.known,
			"harnesses":                    out.reports,
			"check_health_problems":        out.broken,
		},
	}
	writeJSON(filepath.Join(cfg.evDir(), spec.ID+".json"), ev)
	for _, k := range dedup(out.known) {
		fmt.Println(k)
	}
	for _, v := range out.violations {
		fmt.Println(v)
	}
	fmt.Printf("%s tier=%s: %d feasible paths, %d solver queries (%.1fs), %d assertions discharged by the solver, %d folded, %d inconclusive, %d paths not decided, %d native replays; violations=%d known=%d wall=%.1fs\n",
		spec.ID, cfg.Tier, states, queries, solverT, discharged, folded, incon, undecided, out.totalWit, len(out.violations), len(dedup(out.known)), wall.Seconds())
	if undecided > 0 || incon > 0 {
		// not a verdict on those paths: say so where a reader of the output sees it
		fmt.Printf("NOTE property=%s %d paths not decided (unsupported library call or cut) and %d assertions inconclusive: nothing is claimed for them; reasons are in the evidence file\n", spec.ID, undecided, incon)
	}
	if len(out.violations) > 0 {
		return 1
	}
	if len(out.broken) > 0 {
		for _, b := range out.broken {
			fmt.Printf("CHECK-PROBLEM %s: %s\n", spec.ID, b)
		}
		return 2
	}
	return 0
}

func dedup(xs []string) []string {
	seen := map[string]bool{}
	var out []string
	for _, x := range xs {
		if !seen[x] {
			seen[x] = true
			out = append(out, x)
		}
	}
	return out
}

func solverVersion(cfg *Config) string {
	k := cfg.Solver
	if k == "" {
		k = "z3-new"
	}
	o, err := exec.Command(k, "--version").CombinedOutput()
	if err != nil {
		return k
	}
	return strings.TrimSpace(string(o))
}

// ReplayFile re-runs a recorded counterexample natively against cfg.Repo with the harness overlay and VERIF_DEBUG set,
// and prints the native outcome.
func ReplayFile(cfg *Config, file string) int {
	var rec struct {
		Harness string            `json:"harness"`
		Package string            `json:"package"`
		Values  map[string]string `json:"values"`
		Choices []int             `json:"choices"`
		Tier    int               `json:"tier"`
		Assert  string            `json:"assert"`
	}
	b, err := os.ReadFile(file)
	if err != nil {
		fmt.Fprintln(os.Stderr, err)
		return 2
	}
	if err := json.Unmarshal(b, &rec); err != nil {
		fmt.Fprintln(os.Stderr, err)
		return 2
	}
	tmp, err := os.MkdirTemp("", "symgo-replay-")
	if err != nil {
		return 2
	}
	defer os.RemoveAll(tmp)
	// every harness directory takes part in the overlay (helpers are shared across packages)
	dirs := []string{}
	hroot := filepath.Join(cfg.Verif, "harness")
	filepath.Walk(hroot, func(p string, info os.FileInfo, err error) error {
		if err == nil && info.IsDir() && p != hroot && !strings.HasPrefix(info.Name(), "_") {
			if m, _ := filepath.Glob(filepath.Join(p, "*.go")); len(m) > 0 {
				rel, _ := filepath.Rel(hroot, p)
				dirs = append(dirs, rel)
			}
		}
		return nil
	})
	_, real, err := buildOverlay(cfg, dirs, tmp)
	if err != nil {
		fmt.Fprintln(os.Stderr, err)
		return 2
	}
	l := &loaded{overlay: real, tmp: tmp}
	rp := &replayer{cfg: cfg, l: l, bins: map[string]string{}}
	os.Setenv("VERIF_DEBUG", "1")
	res, err := rp.run(rec.Package, []replayCase{{Harness: rec.Harness, Values: rec.Values, Choices: rec.Choices, Tier: rec.Tier, Repeat: 1}})
	if err != nil {
		fmt.Fprintln(os.Stderr, err)
		return 2
	}
	fmt.Printf("harness=%s assert=%s native: failed=%v panic=%q diverged=%q\n", rec.Harness, rec.Assert, res[0].Failed, res[0].Panic, res[0].Diverged)
	if len(res[0].Failed) > 0 || res[0].Panic != "" {
		return 1
	}
	return 0
}
