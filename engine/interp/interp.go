// Copyright 2013 The Go Authors. All rights reserved.
// Use of this source code is governed by a BSD-style
// license that can be found in the LICENSE file (LICENSE.x-tools).

// Package interp is a symbolic fork of golang.org/x/tools/go/ssa/interp (v0.29.0): the reference interpreter for the
// SSA form of Go programs, extended so that scalar values may be SMT terms. Branches on terms fork the path (by
// re-execution, see path.go), assertions become solver queries (explore.go). The dynamic semantics of every SSA
// instruction is that of the original interpreter.
package interp

import (
	"fmt"
	"go/token"
	"go/types"
	"os"
	"runtime"
	"slices"
	"strings"
	"sync"

	"golang.org/x/tools/go/ssa"
)

func mustDeref(t types.Type) types.Type {
	if p, ok := t.Underlying().(*types.Pointer); ok {
		return p.Elem()
	}
	panic(fmt.Sprintf("mustDeref: %v is not a pointer", t))
}

var extCache sync.Map // *ssa.Function -> externalFn (nil when interpreted)

type continuation int

const (
	kNext continuation = iota
	kReturn
	kJump
)

// Mode is a bitmask of options affecting the interpreter.
type Mode uint

const (
	DisableRecover Mode = 1 << iota // Disable recover() in target programs; show interpreter crash instead.
	EnableTracing                   // Print a trace of all instructions as they are interpreted.
)

type methodSet map[string]*ssa.Function

// State of one interpreted path.
type interpreter struct {
	prog               *ssa.Program           // the SSA program
	globals            map[*ssa.Global]*value // addresses of global variables (allocated lazily)
	mode               Mode                   // interpreter options
	reflectPackage     *ssa.Package           // the fake reflect package
	errorMethods       methodSet              // the method set of reflect.error, which implements the error interface.
	rtypeMethods       methodSet              // the method set of rtype, which implements the reflect.Type interface.
	runtimeErrorString types.Type             // the runtime.errorString type
	sizes              types.Sizes            // the effective type-sizing function
	ctx                *pathCtx
	ex                 *Explorer
	initDone           map[*ssa.Package]bool
	callDepth          int
	dbgStack           []string
	fnSeen             map[*ssa.Function]int
	onceDone           map[*value]bool
	syncMaps           map[*value]*omap
	crcAcc             map[*value][]value // bytes written so far to each hash/crc64 digest
}

type deferred struct {
	fn    value
	args  []value
	instr *ssa.Defer
	tail  *deferred
}

type frame struct {
	i                *interpreter
	caller           *frame
	fn               *ssa.Function
	block, prevBlock *ssa.BasicBlock
	env              map[ssa.Value]value // dynamic values of SSA variables
	locals           []value
	defers           *deferred
	result           value
	panicking        bool
	panic            interface{}
	phitemps         []value // temporaries for parallel phi assignment
}

func (i *interpreter) globalCell(g *ssa.Global) *value {
	if r, ok := i.globals[g]; ok {
		return r
	}
	if i.ex != nil && i.ex.baseGlobals != nil {
		if r, ok := i.ex.baseGlobals[g]; ok {
			return r
		}
	}
	cell := zero(mustDeref(g.Type()))
	r := &cell
	i.globals[g] = r
	return r
}

func (fr *frame) get(key ssa.Value) value {
	switch key := key.(type) {
	case nil:
		// Hack; simplifies handling of optional attributes
		// such as ssa.Slice.{Low,High}.
		return nil
	case *ssa.Function, *ssa.Builtin:
		return key
	case *ssa.Const:
		return fr.i.constValue(key)
	case *ssa.Global:
		return fr.i.globalCell(key)
	}
	if r, ok := fr.env[key]; ok {
		return r
	}
	panic(fmt.Sprintf("get: no value for %T: %v", key, key.Name()))
}

// runDefer runs a deferred call d.
// It always returns normally, but may set or clear fr.panic.
func (fr *frame) runDefer(d *deferred) {
	var ok bool
	defer func() {
		if !ok {
			// Deferred call created a new state of panic.
			r := recover()
			if pa, is := r.(pathAbort); is {
				panic(pa)
			}
			fr.panicking = true
			fr.panic = r
		}
	}()
	call(fr.i, fr, d.instr.Pos(), d.fn, d.args)
	ok = true
}

// runDefers executes fr's deferred function calls in LIFO order.
func (fr *frame) runDefers() {
	for d := fr.defers; d != nil; d = d.tail {
		fr.runDefer(d)
	}
	fr.defers = nil
	if fr.panicking {
		panic(fr.panic) // new panic, or still panicking
	}
}

// lookupMethod returns the method set for type typ, which may be one
// of the interpreter's fake types.
func lookupMethod(i *interpreter, typ types.Type, meth *types.Func) *ssa.Function {
	switch typ {
	case rtypeType:
		return i.rtypeMethods[meth.Id()]
	case errorType:
		return i.errorMethods[meth.Id()]
	}
	return i.prog.LookupMethod(typ, meth.Pkg(), meth.Name())
}

func (i *interpreter) intIndex(v value, what string) int64 {
	if s, ok := v.(sym); ok {
		return i.concretizeIndex(s.e, what)
	}
	return asInt64(v)
}

// visitInstr interprets a single ssa.Instruction within the activation
// record frame.  It returns a continuation value indicating where to
// read the next instruction from.
func visitInstr(fr *frame, instr ssa.Instruction) continuation {
	i := fr.i
	switch instr := instr.(type) {
	case *ssa.DebugRef:
		// no-op

	case *ssa.UnOp:
		fr.env[instr] = i.unop(instr, fr.get(instr.X))

	case *ssa.BinOp:
		fr.env[instr] = i.binop(instr.Op, instr.X.Type(), fr.get(instr.X), fr.get(instr.Y))

	case *ssa.Call:
		fn, args := prepareCall(fr, &instr.Call)
		fr.env[instr] = call(fr.i, fr, instr.Pos(), fn, args)

	case *ssa.ChangeInterface:
		fr.env[instr] = fr.get(instr.X)

	case *ssa.ChangeType:
		fr.env[instr] = fr.get(instr.X) // (can't fail)

	case *ssa.Convert:
		fr.env[instr] = i.conv(instr.Type(), instr.X.Type(), fr.get(instr.X))

	case *ssa.MultiConvert:
		fr.env[instr] = i.conv(instr.Type(), instr.X.Type(), fr.get(instr.X))

	case *ssa.SliceToArrayPointer:
		fr.env[instr] = sliceToArrayPointer(instr.Type(), instr.X.Type(), fr.get(instr.X))

	case *ssa.MakeInterface:
		fr.env[instr] = iface{t: instr.X.Type(), v: fr.get(instr.X)}

	case *ssa.Extract:
		fr.env[instr] = fr.get(instr.Tuple).(tuple)[instr.Index]

	case *ssa.Slice:
		fr.env[instr] = i.slice(fr.get(instr.X), fr.get(instr.Low), fr.get(instr.High), fr.get(instr.Max))

	case *ssa.Return:
		switch len(instr.Results) {
		case 0:
		case 1:
			fr.result = fr.get(instr.Results[0])
		default:
			var res []value
			for _, r := range instr.Results {
				res = append(res, fr.get(r))
			}
			fr.result = tuple(res)
		}
		fr.block = nil
		return kReturn

	case *ssa.RunDefers:
		fr.runDefers()

	case *ssa.Panic:
		panic(targetPanic{fr.get(instr.X)})

	case *ssa.Send, *ssa.Go, *ssa.MakeChan, *ssa.Select:
		i.abort("unsupported", fmt.Sprintf("concurrency instruction %T in %s", instr, fr.fn))

	case *ssa.Store:
		store(mustDeref(instr.Addr.Type()), fr.get(instr.Addr).(*value), fr.get(instr.Val))

	case *ssa.If:
		succ := 1
		switch c := fr.get(instr.Cond).(type) {
		case bool:
			if c {
				succ = 0
			}
		case sym:
			if i.branch(c.e) {
				succ = 0
			}
		default:
			panic(fmt.Sprintf("If: unexpected condition %T", c))
		}
		fr.prevBlock, fr.block = fr.block, fr.block.Succs[succ]
		return kJump

	case *ssa.Jump:
		fr.prevBlock, fr.block = fr.block, fr.block.Succs[0]
		return kJump

	case *ssa.Defer:
		fn, args := prepareCall(fr, &instr.Call)
		defers := &fr.defers
		if into := fr.get(instr.DeferStack); into != nil {
			defers = into.(**deferred)
		}
		*defers = &deferred{
			fn:    fn,
			args:  args,
			instr: instr,
			tail:  *defers,
		}

	case *ssa.Alloc:
		var addr *value
		if instr.Heap {
			// new
			addr = new(value)
			fr.env[instr] = addr
		} else {
			// local
			addr = fr.env[instr].(*value)
		}
		*addr = zero(mustDeref(instr.Type()))

	case *ssa.MakeSlice:
		tElt := instr.Type().Underlying().(*types.Slice).Elem()
		ln, cp := i.makeSize(fr.get(instr.Len), fr.get(instr.Cap), tElt, fr, instr)
		slice := make([]value, cp)
		for k := range slice {
			slice[k] = zero(tElt)
		}
		fr.env[instr] = slice[:ln]

	case *ssa.MakeMap:
		if instr.Reserve != nil {
			i.makeSize(fr.get(instr.Reserve), fr.get(instr.Reserve), nil, fr, instr)
		}
		fr.env[instr] = makeMap(instr.Type().Underlying().(*types.Map).Key())

	case *ssa.Range:
		fr.env[instr] = i.rangeIter(fr.get(instr.X), instr.X.Type())

	case *ssa.Next:
		fr.env[instr] = fr.get(instr.Iter).(iter).next()

	case *ssa.FieldAddr:
		p := fr.get(instr.X).(*value)
		if p == nil {
			panic(runtimeErr("invalid memory address or nil pointer dereference"))
		}
		st, ok := (*p).(structure)
		if !ok {
			i.abort("unsupported", fmt.Sprintf("field access into modelled object %T in %s", *p, fr.fn))
		}
		fr.env[instr] = &st[instr.Field]

	case *ssa.Field:
		st, ok := fr.get(instr.X).(structure)
		if !ok {
			i.abort("unsupported", fmt.Sprintf("field read of modelled object in %s", fr.fn))
		}
		fr.env[instr] = st[instr.Field]

	case *ssa.IndexAddr:
		x := fr.get(instr.X)
		switch x := x.(type) {
		case []value:
			idx := i.boundedIndex(fr.get(instr.Index), len(x))
			fr.env[instr] = &x[idx]
		case *value: // *array
			if x == nil {
				panic(runtimeErr("invalid memory address or nil pointer dereference"))
			}
			a := (*x).(array)
			idx := i.boundedIndex(fr.get(instr.Index), len(a))
			fr.env[instr] = &a[idx]
		default:
			panic(fmt.Sprintf("unexpected x type in IndexAddr: %T", x))
		}

	case *ssa.Index:
		x := fr.get(instr.X)
		if nt, ok := x.(numtext); ok {
			x = nt.expand()
		}
		switch x := x.(type) {
		case array:
			fr.env[instr] = x[i.boundedIndex(fr.get(instr.Index), len(x))]
		case string:
			fr.env[instr] = x[i.boundedIndex(fr.get(instr.Index), len(x))]
		case symstr:
			fr.env[instr] = x[i.boundedIndex(fr.get(instr.Index), len(x))]
		default:
			panic(fmt.Sprintf("unexpected x type in Index: %T", x))
		}

	case *ssa.Lookup:
		fr.env[instr] = i.lookup(instr, fr.get(instr.X), fr.get(instr.Index))

	case *ssa.MapUpdate:
		m := fr.get(instr.Map)
		key := fr.get(instr.Key)
		v := fr.get(instr.Value)
		switch m := m.(type) {
		case *omap:
			if m == nil {
				panic(runtimeErr("assignment to entry in nil map"))
			}
			m.insert(i, key, v)
		default:
			panic(fmt.Sprintf("illegal map type: %T", m))
		}

	case *ssa.TypeAssert:
		fr.env[instr] = typeAssert(fr.i, instr, fr.get(instr.X).(iface))

	case *ssa.MakeClosure:
		var bindings []value
		for _, binding := range instr.Bindings {
			bindings = append(bindings, fr.get(binding))
		}
		fr.env[instr] = &closure{instr.Fn.(*ssa.Function), bindings}

	case *ssa.Phi:
		panic("unreachable") // phis are processed at block entry

	default:
		panic(fmt.Sprintf("unexpected instruction: %T", instr))
	}

	return kNext
}

// boundedIndex returns a concrete in-range index or raises the Go index panic. A symbolic index forks over the
// feasible in-range values and the out-of-range case.
func (i *interpreter) boundedIndex(idx value, n int) int {
	if s, ok := idx.(sym); ok {
		if i.branch(mkOr(mkLt(s.e, mkInt64(0)), mkGe(s.e, mkInt64(int64(n))))) {
			panic(runtimeErr(fmt.Sprintf("index out of range [symbolic] with length %d", n)))
		}
		if n > 300 {
			i.abort("unsupported", fmt.Sprintf("symbolic index into sequence of length %d", n))
		}
		return int(i.concretize(s.e, 0, int64(n-1)))
	}
	k := asInt64(idx)
	if k < 0 || k >= int64(n) {
		panic(runtimeErr(fmt.Sprintf("index out of range [%d] with length %d", k, n)))
	}
	return int(k)
}

// concretizeIndex concretises a symbolic slice bound / size within a small range.
func (i *interpreter) concretizeIndex(e *expr, what string) int64 {
	if i.branch(mkLt(e, mkInt64(0))) {
		return -1
	}
	lim := int64(i.ex.MaxConcretize)
	if i.branch(mkGt(e, mkInt64(lim))) {
		// The region above the exhaustively forked range is represented by its two extremes: the smallest and the
		// largest feasible value (found by binary search with the solver, hence the same on every re-execution).
		// This is a concretisation: the values in between are not explored (counted in the evidence).
		i.ex.mu.Lock()
		i.ex.St.Concretised++
		i.ex.mu.Unlock()
		lo := i.extreme(e, lim+1, false)
		v := lo
		if i.ctx.checkSat(mkGt(e, mkInt64(lo))) == resSat {
			if i.choose(2) == 1 {
				v = i.extreme(e, lo+1, true)
			}
		}
		i.ctx.assume(mkEq(e, mkInt64(v)))
		return v
	}
	return i.concretize(e, 0, lim)
}

// extreme returns the smallest (or largest) value of e that is feasible on this path, given that some value >= lo is.
func (i *interpreter) extreme(e *expr, lo int64, wantMax bool) int64 {
	hi := int64(1) << 62
	if _, bhi := e.bounds(); bhi != nil && bhi.IsInt64() && bhi.Int64() < hi {
		hi = bhi.Int64()
	}
	feasible := func(c *expr) bool {
		switch i.ctx.checkSat(c) {
		case resSat:
			return true
		case resUnsat:
			return false
		}
		i.abort("cut", "solver could not bound a symbolic size")
		return false
	}
	l, h := lo, hi
	if wantMax {
		for l < h {
			mid := l + (h-l+1)/2
			if feasible(mkGe(e, mkInt64(mid))) {
				l = mid
			} else {
				h = mid - 1
			}
		}
		return l
	}
	for l < h {
		mid := l + (h-l)/2
		if feasible(mkAnd(mkGe(e, mkInt64(lo)), mkLe(e, mkInt64(mid)))) {
			h = mid
		} else {
			l = mid + 1
		}
	}
	return l
}

// makeSize evaluates len/cap of make(), applying the memory monitor to symbolic sizes.
func (i *interpreter) makeSize(lnv, cpv value, elem types.Type, fr *frame, instr ssa.Instruction) (int, int) {
	one := func(v value) int64 {
		if s, ok := v.(sym); ok {
			i.ex.noteSymbolicMake(i, s.e, elem, fr, instr)
			n := i.concretizeIndex(s.e, "make size")
			return n
		}
		return asInt64(v)
	}
	ln := one(lnv)
	cp := ln
	if cpv != nil {
		if _, same := cpv.(sym); same && fmt.Sprint(cpv) == fmt.Sprint(lnv) {
			cp = ln
		} else {
			cp = one(cpv)
		}
	}
	if ln < 0 || cp < 0 {
		panic(runtimeErr("makeslice: len out of range"))
	}
	if ln > cp {
		panic(runtimeErr("makeslice: cap out of range"))
	}
	if cp > 1<<47 {
		// beyond the address space the Go runtime accepts (maxAlloc on 64-bit platforms), whatever the element size
		panic(runtimeErr("makeslice: len out of range"))
	}
	if cp > 1<<24 {
		// A huge concrete or concretised allocation: the memory monitor has judged it (if symbolic); the engine
		// does not materialise it.
		i.abort("cut", fmt.Sprintf("allocation of %d elements not materialised", cp))
	}
	return int(ln), int(cp)
}

// prepareCall determines the function value and argument values for a
// function call in a Call, Go or Defer instruction, performing
// interface method lookup if needed.
func prepareCall(fr *frame, call *ssa.CallCommon) (fn value, args []value) {
	v := fr.get(call.Value)
	if call.Method == nil {
		// Function call.
		fn = v
	} else {
		// Interface method invocation.
		recv := v.(iface)
		if recv.t == nil {
			panic(runtimeErr("invalid memory address or nil pointer dereference (method invoked on nil interface)"))
		}
		if f := lookupMethod(fr.i, recv.t, call.Method); f == nil {
			// Unreachable in well-typed programs.
			panic(fmt.Sprintf("method set for dynamic type %v does not contain %s", recv.t, call.Method))
		} else {
			fn = f
		}
		args = append(args, recv.v)
	}
	for _, arg := range call.Args {
		args = append(args, fr.get(arg))
	}
	return
}

// call interprets a call to a function (function, builtin or closure)
// fn with arguments args, returning its result.
// callpos is the position of the callsite.
func call(i *interpreter, caller *frame, callpos token.Pos, fn value, args []value) value {
	switch fn := fn.(type) {
	case *ssa.Function:
		if fn == nil {
			panic(runtimeErr("invalid memory address or nil pointer dereference (call of nil function)"))
		}
		return callSSA(i, caller, callpos, fn, args, nil)
	case *closure:
		return callSSA(i, caller, callpos, fn.Fn, args, fn.Env)
	case *ssa.Builtin:
		return i.callBuiltin(caller, callpos, fn, args)
	}
	panic(fmt.Sprintf("cannot call %T", fn))
}

func loc(fset *token.FileSet, pos token.Pos) string {
	if pos == token.NoPos {
		return ""
	}
	return " at " + fset.Position(pos).String()
}

// callSSA interprets a call to function fn with arguments args,
// and lexical environment env, returning its result.
// callpos is the position of the callsite.
func callSSA(i *interpreter, caller *frame, callpos token.Pos, fn *ssa.Function, args []value, env []value) value {
	if i.mode&EnableTracing != 0 {
		fset := fn.Prog.Fset
		fmt.Fprintf(os.Stderr, "Entering %s%s.\n", fn, loc(fset, fn.Pos()))
		suffix := ""
		if caller != nil {
			suffix = ", resuming " + caller.fn.String() + loc(fset, callpos)
		}
		defer fmt.Fprintf(os.Stderr, "Leaving %s%s.\n", fn, suffix)
	}
	fr := &frame{
		i:      i,
		caller: caller, // for panic/recover
		fn:     fn,
	}
	if fn.Parent() == nil {
		var ext externalFn
		if c, ok := extCache.Load(fn); ok {
			ext = c.(externalFn)
		} else {
			ext = externals[fn.String()]
			if ext == nil && fn.Pkg != nil && i.ex != nil {
				ext = i.ex.intrinsic(fn)
			}
			extCache.Store(fn, ext)
		}
		if ext != nil {
			return ext(fr, args)
		}
		if fn.Synthetic == "package initializer" {
			if !i.ex.shouldInit(fn.Pkg) {
				return nil
			}
		}
		if fn.Blocks == nil {
			i.abort("unsupported", "no code for function: "+fn.String())
		}
	}
	i.fnSeen[fn]++

	// generic function body?
	if fn.TypeParams().Len() > 0 && len(fn.TypeArgs()) == 0 {
		panic("interp requires ssa.BuilderMode to include InstantiateGenerics to execute generics")
	}
	i.callDepth++
	if i.callDepth > 400 {
		i.abort("budget", "call depth exceeded")
	}
	defer func() { i.callDepth-- }()

	fr.env = make(map[ssa.Value]value)
	fr.block = fn.Blocks[0]
	fr.locals = make([]value, len(fn.Locals))
	for k, l := range fn.Locals {
		fr.locals[k] = zero(mustDeref(l.Type()))
		fr.env[l] = &fr.locals[k]
	}
	for k, p := range fn.Params {
		fr.env[p] = args[k]
	}
	for k, fv := range fn.FreeVars {
		fr.env[fv] = env[k]
	}
	for fr.block != nil {
		runFrame(fr)
	}
	return fr.result
}

// runFrame executes SSA instructions starting at fr.block and
// continuing until a return, a panic, or a recovered panic.
func runFrame(fr *frame) {
	defer func() {
		if fr.block == nil {
			return // normal return
		}
		if fr.i.mode&DisableRecover != 0 {
			return // let interpreter crash
		}
		r := recover()
		if fr.i.dbgStack == nil {
			for f := fr; f != nil; f = f.caller {
				where := ""
				if f.block != nil {
					where = fmt.Sprintf(" block %d", f.block.Index)
				}
				fr.i.dbgStack = append(fr.i.dbgStack, f.fn.String()+where)
			}
		}
		if pa, ok := r.(pathAbort); ok {
			panic(pa) // never visible to the target program
		}
		if ie, ok := r.(internalError); ok {
			panic(ie)
		}
		fr.panicking = true
		fr.panic = r
		fr.runDefers()
		fr.block = fr.fn.Recover
	}()

	for {
		nonPhis := executePhis(fr)
		for _, instr := range nonPhis {
			if fr.i.mode&EnableTracing != 0 {
				if v, ok := instr.(ssa.Value); ok {
					fmt.Fprintln(os.Stderr, "\t", v.Name(), "=", instr)
				} else {
					fmt.Fprintln(os.Stderr, "\t", instr)
				}
			}
			if visitInstr(fr, instr) == kReturn {
				return
			}
			// Inv: kNext (continue) or kJump (last instr)
		}
		if c := fr.i.ctx; c != nil {
			c.steps++
			if c.steps > fr.i.ex.MaxSteps {
				fr.i.abort("budget", fmt.Sprintf("more than %d basic blocks on one path (in %s)", fr.i.ex.MaxSteps, fr.fn))
			}
		}
	}
}

// executePhis executes the phi-nodes at the start of the current
// block and returns the non-phi instructions.
func executePhis(fr *frame) []ssa.Instruction {
	firstNonPhi := -1
	for i, instr := range fr.block.Instrs {
		if _, ok := instr.(*ssa.Phi); !ok {
			firstNonPhi = i
			break
		}
	}
	// Inv: 0 <= firstNonPhi; every block contains a non-phi.

	nonPhis := fr.block.Instrs[firstNonPhi:]
	if firstNonPhi > 0 {
		phis := fr.block.Instrs[:firstNonPhi]
		// Execute parallel assignment of phis.
		predIndex := slices.Index(fr.block.Preds, fr.prevBlock)
		fr.phitemps = fr.phitemps[:0]
		for _, phi := range phis {
			phi := phi.(*ssa.Phi)
			fr.phitemps = append(fr.phitemps, fr.get(phi.Edges[predIndex]))
		}
		for i, phi := range phis {
			fr.env[phi.(*ssa.Phi)] = fr.phitemps[i]
		}
	}
	return nonPhis
}

// internalError marks a defect of the engine itself (never attributed to the target program).
type internalError struct{ msg string }

// doRecover implements the recover() built-in.
func doRecover(caller *frame) value {
	// recover() must be exactly one level beneath the deferred
	// function (two levels beneath the panicking function) to
	// have any effect.  Thus we ignore both "defer recover()" and
	// "defer f() -> g() -> recover()".
	if caller.i.mode&DisableRecover == 0 &&
		caller != nil && !caller.panicking &&
		caller.caller != nil && caller.caller.panicking {
		p := caller.caller.panic
		switch p := p.(type) {
		case targetPanic:
			// The target program explicitly called panic().
			caller.caller.panicking = false
			caller.caller.panic = nil
			return p.v
		case runtime.Error:
			// The interpreter encountered a runtime error.
			caller.caller.panicking = false
			caller.caller.panic = nil
			return iface{caller.i.runtimeErrorString, p.Error()}
		case string:
			// The interpreter explicitly called panic(): an engine defect unless it is one of the known
			// target-level messages.
			if strings.HasPrefix(p, "interface conversion:") || strings.HasPrefix(p, "value method") {
				caller.caller.panicking = false
				caller.caller.panic = nil
				return iface{caller.i.runtimeErrorString, p}
			}
			panic(internalError{"interpreter panic reached target recover(): " + p})
		default:
			panic(internalError{fmt.Sprintf("unexpected panic type %T in target call to recover(): %v", p, p)})
		}
	}
	return iface{}
}

// newInterpreter prepares the state for one path.
func newInterpreter(ex *Explorer, mode Mode) *interpreter {
	i := &interpreter{
		prog:     ex.Prog,
		globals:  make(map[*ssa.Global]*value),
		mode:     mode,
		sizes:    ex.Sizes,
		ex:       ex,
		initDone: map[*ssa.Package]bool{},
		fnSeen:   map[*ssa.Function]int{},
	}
	i.runtimeErrorString = ex.runtimeErrorString
	initReflect(i)
	return i
}
