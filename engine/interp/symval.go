package interp

// Symbolic scalar values and the Go-integer semantics over SMT Int.

import (
	"fmt"
	"go/token"
	"go/types"
	"math/big"
)

// sym is a symbolic scalar of basic kind k (Bool, Int..Uintptr, Float32/64). Invariant for integer kinds: every model
// of the path condition gives e a value inside the kind's range.
type sym struct {
	k types.BasicKind
	e *expr
}

// symstr is an immutable string with at least one symbolic byte; elements are uint8 or sym{Uint8}.
type symstr []value

func intInfo(k types.BasicKind) (bits int, signed bool) {
	switch k {
	case types.Int, types.Int64:
		return 64, true
	case types.Int8:
		return 8, true
	case types.Int16:
		return 16, true
	case types.Int32:
		return 32, true
	case types.Uint, types.Uint64, types.Uintptr:
		return 64, false
	case types.Uint8:
		return 8, false
	case types.Uint16:
		return 16, false
	case types.Uint32:
		return 32, false
	}
	panic(fmt.Sprintf("intInfo: not an integer kind %v", k))
}

func isIntKind(k types.BasicKind) bool {
	switch k {
	case types.Int, types.Int8, types.Int16, types.Int32, types.Int64,
		types.Uint, types.Uint8, types.Uint16, types.Uint32, types.Uint64, types.Uintptr:
		return true
	}
	return false
}

func kindRange(k types.BasicKind) (lo, hi *big.Int) {
	bits, signed := intInfo(k)
	one := big.NewInt(1)
	if signed {
		hi = new(big.Int).Sub(new(big.Int).Lsh(one, uint(bits-1)), one)
		lo = new(big.Int).Neg(new(big.Int).Lsh(one, uint(bits-1)))
	} else {
		lo = big.NewInt(0)
		hi = new(big.Int).Sub(new(big.Int).Lsh(one, uint(bits)), one)
	}
	return
}

func pow2(n int) *big.Int { return new(big.Int).Lsh(big.NewInt(1), uint(n)) }

// kindOfValue returns the basic kind of a concrete or symbolic scalar.
func kindOfValue(v value) (types.BasicKind, bool) {
	switch v := v.(type) {
	case sym:
		return v.k, true
	case bool:
		return types.Bool, true
	case int:
		return types.Int, true
	case int8:
		return types.Int8, true
	case int16:
		return types.Int16, true
	case int32:
		return types.Int32, true
	case int64:
		return types.Int64, true
	case uint:
		return types.Uint, true
	case uint8:
		return types.Uint8, true
	case uint16:
		return types.Uint16, true
	case uint32:
		return types.Uint32, true
	case uint64:
		return types.Uint64, true
	case uintptr:
		return types.Uintptr, true
	case float32:
		return types.Float32, true
	case float64:
		return types.Float64, true
	case string, symstr, numtext:
		return types.String, true
	}
	return 0, false
}

func isSym(v value) bool {
	switch v.(type) {
	case sym, symstr, numtext:
		return true
	}
	return false
}

// bigOfInt returns the mathematical value of a concrete integer value.
func bigOfInt(v value) *big.Int {
	switch v := v.(type) {
	case int:
		return big.NewInt(int64(v))
	case int8:
		return big.NewInt(int64(v))
	case int16:
		return big.NewInt(int64(v))
	case int32:
		return big.NewInt(int64(v))
	case int64:
		return big.NewInt(v)
	case uint:
		return new(big.Int).SetUint64(uint64(v))
	case uint8:
		return big.NewInt(int64(v))
	case uint16:
		return big.NewInt(int64(v))
	case uint32:
		return big.NewInt(int64(v))
	case uint64:
		return new(big.Int).SetUint64(v)
	case uintptr:
		return new(big.Int).SetUint64(uint64(v))
	}
	panic(fmt.Sprintf("bigOfInt: %T", v))
}

// exprOf returns the term for a concrete or symbolic bool/integer.
func exprOf(v value) *expr {
	switch v := v.(type) {
	case sym:
		return v.e
	case bool:
		return mkBool(v)
	}
	return mkInt(bigOfInt(v))
}

// concreteInt builds the Go value of kind k holding the (in-range) integer n.
func concreteInt(k types.BasicKind, n *big.Int) value {
	switch k {
	case types.Int:
		return int(n.Int64())
	case types.Int8:
		return int8(n.Int64())
	case types.Int16:
		return int16(n.Int64())
	case types.Int32:
		return int32(n.Int64())
	case types.Int64:
		return n.Int64()
	case types.Uint:
		return uint(n.Uint64())
	case types.Uint8:
		return uint8(n.Uint64())
	case types.Uint16:
		return uint16(n.Uint64())
	case types.Uint32:
		return uint32(n.Uint64())
	case types.Uint64:
		return n.Uint64()
	case types.Uintptr:
		return uintptr(n.Uint64())
	}
	panic("concreteInt: bad kind")
}

// mkIntVal returns the value of integer kind k for the in-range term e (concrete when e is constant).
func mkIntVal(k types.BasicKind, e *expr) value {
	if e.op == "i" {
		return concreteInt(k, e.ival)
	}
	return sym{k, e}
}

func mkBoolVal(e *expr) value {
	if e.op == "b" {
		return e.bval
	}
	return sym{types.Bool, e}
}

// wrapSmall wraps r, known to be within one modulus of the range of k (results of + and -).
func wrapSmall(k types.BasicKind, r *expr) *expr {
	lo, hi := kindRange(k)
	rlo, rhi := r.bounds()
	if rlo != nil && rhi != nil && rlo.Cmp(lo) >= 0 && rhi.Cmp(hi) <= 0 {
		return r
	}
	bits, _ := intInfo(k)
	m := mkInt(pow2(bits))
	if r.op == "i" {
		return wrapAny(k, r)
	}
	return mkIte(mkGt(r, mkInt(hi)), mkSub(r, m), mkIte(mkLt(r, mkInt(lo)), mkAdd(r, m), r))
}

// wrapAny wraps an arbitrary integer term into the range of k (two's complement).
func wrapAny(k types.BasicKind, r *expr) *expr {
	lo, hi := kindRange(k)
	rlo, rhi := r.bounds()
	if rlo != nil && rhi != nil && rlo.Cmp(lo) >= 0 && rhi.Cmp(hi) <= 0 {
		return r
	}
	bits, signed := intInfo(k)
	m := mkInt(pow2(bits))
	if !signed {
		return mkMod(r, m)
	}
	h := mkInt(pow2(bits - 1))
	return mkSub(mkMod(mkAdd(r, h), m), h)
}

// truncated division and remainder (Go semantics) on SMT's Euclidean div/mod; b != 0 is the caller's obligation.
func tdiv(a, b *expr) *expr {
	zero := mkInt64(0)
	alo, _ := a.bounds()
	blo, _ := b.bounds()
	if alo != nil && alo.Sign() >= 0 && blo != nil && blo.Sign() > 0 {
		return mkDiv(a, b)
	}
	if b.op == "i" {
		if b.ival.Sign() > 0 {
			return mkIte(mkGe(a, zero), mkDiv(a, b), mkNeg(mkDiv(mkNeg(a), b)))
		}
		nb := mkNeg(b)
		return mkIte(mkGe(a, zero), mkNeg(mkDiv(a, nb)), mkDiv(mkNeg(a), nb))
	}
	return mkIte(mkGe(a, zero),
		mkIte(mkGt(b, zero), mkDiv(a, b), mkNeg(mkDiv(a, mkNeg(b)))),
		mkIte(mkGt(b, zero), mkNeg(mkDiv(mkNeg(a), b)), mkDiv(mkNeg(a), mkNeg(b))))
}

func trem(a, b *expr) *expr {
	zero := mkInt64(0)
	alo, _ := a.bounds()
	if alo != nil && alo.Sign() >= 0 {
		return mkMod(a, b)
	}
	return mkIte(mkGe(a, zero), mkMod(a, b), mkNeg(mkMod(mkNeg(a), b)))
}

// bitsOf expands e (0 <= e < 2^n) into its n bits as 0/1 Int terms.
func bitOf(e *expr, i int) *expr {
	return mkMod(mkDiv(e, mkInt(pow2(i))), mkInt64(2))
}

// unsignedView returns the two's complement unsigned reading of e of kind k.
func unsignedView(k types.BasicKind, e *expr) *expr {
	bits, signed := intInfo(k)
	if !signed {
		return e
	}
	lo, _ := e.bounds()
	if lo != nil && lo.Sign() >= 0 {
		return e
	}
	return mkMod(e, mkInt(pow2(bits)))
}

func fromUnsignedView(k types.BasicKind, e *expr) *expr {
	return wrapAny(k, e)
}

// bitwise implements & | ^ &^ on integer terms.
func (i *interpreter) bitwise(op token.Token, k types.BasicKind, x, y *expr) *expr {
	bits, _ := intInfo(k)
	// constant masks
	if op == token.AND || op == token.AND_NOT {
		if x.op == "i" && op == token.AND {
			x, y = y, x
		}
		if y.op == "i" {
			mask := new(big.Int).Set(y.ival)
			if mask.Sign() < 0 {
				mask.Add(mask, pow2(bits))
			}
			if op == token.AND_NOT {
				all := new(big.Int).Sub(pow2(bits), big.NewInt(1))
				mask = new(big.Int).AndNot(all, mask)
			}
			ux := unsignedView(k, x)
			// sum over contiguous runs of ones
			res := mkInt64(0)
			b := 0
			for b < bits {
				if mask.Bit(b) == 0 {
					b++
					continue
				}
				e := b
				for e < bits && mask.Bit(e) == 1 {
					e++
				}
				// bits [b,e)
				part := mkMod(mkDiv(ux, mkInt(pow2(b))), mkInt(pow2(e-b)))
				res = mkAdd(res, mkMul(mkInt(pow2(b)), part))
				b = e
			}
			return fromUnsignedView(k, res)
		}
	}
	if op == token.OR || op == token.XOR {
		// disjoint bit ranges: x multiple of 2^t and 0 <= y < 2^t (or vice versa) => x+y
		for n := 0; n < 2; n++ {
			t := x.tz()
			lo, hi := y.bounds()
			if t > 0 && lo != nil && hi != nil && lo.Sign() >= 0 && (t >= 1<<19 || hi.Cmp(pow2(t)) < 0) {
				xl, _ := x.bounds()
				if xl != nil && xl.Sign() >= 0 {
					return wrapAny(k, mkAdd(x, y))
				}
			}
			x, y = y, x
		}
	}
	// generic per-bit expansion for narrow operands
	ux, uy := unsignedView(k, x), unsignedView(k, y)
	n := bits
	_, xh := ux.bounds()
	_, yh := uy.bounds()
	if xh != nil && yh != nil {
		m := maxBig(xh, yh)
		if m.BitLen() < n {
			n = m.BitLen()
		}
	}
	if n > 16 {
		i.abort("unsupported", fmt.Sprintf("symbolic bitwise %s on %d-bit operands", op, n))
	}
	res := mkInt64(0)
	one := mkInt64(1)
	for b := 0; b < n; b++ {
		xb, yb := mkEq(bitOf(ux, b), one), mkEq(bitOf(uy, b), one)
		var r *expr
		switch op {
		case token.AND:
			r = mkAnd(xb, yb)
		case token.OR:
			r = mkOr(xb, yb)
		case token.XOR:
			r = mkNot(mkEq(xb, yb))
		case token.AND_NOT:
			r = mkAnd(xb, mkNot(yb))
		}
		res = mkAdd(res, mkIte(r, mkInt(pow2(b)), mkInt64(0)))
	}
	if op == token.AND_NOT && n < bits {
		// high bits of x survive
		res = mkAdd(res, mkMul(mkInt(pow2(n)), mkDiv(ux, mkInt(pow2(n)))))
	}
	return fromUnsignedView(k, res)
}

// symBinop implements binary operators when at least one operand is a symbolic scalar (not string).
func (i *interpreter) symBinop(op token.Token, t types.Type, x, y value) value {
	kx, _ := kindOfValue(x)
	if kx == types.Bool {
		a, b := exprOf(x), exprOf(y)
		switch op {
		case token.EQL:
			return mkBoolVal(mkEq(a, b))
		case token.NEQ:
			return mkBoolVal(mkNot(mkEq(a, b)))
		case token.AND, token.LAND:
			return mkBoolVal(mkAnd(a, b))
		case token.OR, token.LOR:
			return mkBoolVal(mkOr(a, b))
		}
		panic(fmt.Sprintf("symBinop: bool op %s", op))
	}
	if kx == types.Float64 || kx == types.Float32 {
		return i.fpBinop(op, kx, x, y)
	}
	if !isIntKind(kx) {
		panic(fmt.Sprintf("symBinop: unexpected kind %v (%T %s %T)", kx, x, op, y))
	}
	if op == token.SHL || op == token.SHR {
		return i.symShift(op, kx, x, y)
	}
	a, b := exprOf(x), exprOf(y)
	switch op {
	case token.ADD:
		return mkIntVal(kx, wrapSmall(kx, mkAdd(a, b)))
	case token.SUB:
		return mkIntVal(kx, wrapSmall(kx, mkSub(a, b)))
	case token.MUL:
		return mkIntVal(kx, wrapAny(kx, mkMul(a, b)))
	case token.QUO, token.REM:
		if i.branch(mkEq(b, mkInt64(0))) {
			panic(runtimeErr("integer divide by zero"))
		}
		if op == token.QUO {
			return mkIntVal(kx, wrapAny(kx, tdiv(a, b)))
		}
		return mkIntVal(kx, trem(a, b))
	case token.AND, token.OR, token.XOR, token.AND_NOT:
		return mkIntVal(kx, i.bitwise(op, kx, a, b))
	case token.LSS:
		return mkBoolVal(mkLt(a, b))
	case token.LEQ:
		return mkBoolVal(mkLe(a, b))
	case token.GTR:
		return mkBoolVal(mkGt(a, b))
	case token.GEQ:
		return mkBoolVal(mkGe(a, b))
	case token.EQL:
		return mkBoolVal(mkEq(a, b))
	case token.NEQ:
		return mkBoolVal(mkNot(mkEq(a, b)))
	}
	panic(fmt.Sprintf("symBinop: invalid op %T %s %T", x, op, y))
}

func (i *interpreter) symShift(op token.Token, k types.BasicKind, x, y value) value {
	// shift count: concretise when symbolic
	var n uint64
	if sy, ok := y.(sym); ok {
		if i.branch(mkLt(sy.e, mkInt64(0))) {
			panic(runtimeErr("negative shift amount"))
		}
		n = uint64(i.concretize(sy.e, 0, 65))
	} else {
		u, ok := asUnsigned(y)
		if !ok {
			panic(runtimeErr("negative shift amount"))
		}
		n = asUint64(u)
	}
	if _, ok := x.(sym); !ok {
		// concrete x, symbolic count now concretised
		return i.binop(op, nil, x, uint64(n))
	}
	bits, signed := intInfo(k)
	a := exprOf(x)
	if op == token.SHL {
		if n >= uint64(bits) {
			return concreteInt(k, big.NewInt(0))
		}
		return mkIntVal(k, wrapAny(k, mkMul(mkInt(pow2(int(n))), a)))
	}
	if n >= uint64(bits) {
		if signed {
			return mkIntVal(k, mkIte(mkLt(a, mkInt64(0)), mkInt64(-1), mkInt64(0)))
		}
		return concreteInt(k, big.NewInt(0))
	}
	return mkIntVal(k, mkDiv(a, mkInt(pow2(int(n)))))
}

func (i *interpreter) symUnop(op token.Token, x sym) value {
	if x.k == types.Bool {
		if op == token.NOT {
			return mkBoolVal(mkNot(x.e))
		}
		panic("symUnop: bool " + op.String())
	}
	if x.k == types.Float64 || x.k == types.Float32 {
		if op == token.SUB {
			return sym{x.k, node("fp.neg", x.e.sort, x.e)}
		}
		panic("symUnop: float " + op.String())
	}
	switch op {
	case token.SUB:
		return mkIntVal(x.k, wrapAny(x.k, mkNeg(x.e)))
	case token.XOR:
		// ^x = -x-1 (signed), 2^n-1-x (unsigned)
		bits, signed := intInfo(x.k)
		if signed {
			return mkIntVal(x.k, mkSub(mkNeg(x.e), mkInt64(1)))
		}
		return mkIntVal(x.k, mkSub(mkInt(new(big.Int).Sub(pow2(bits), big.NewInt(1))), x.e))
	}
	panic("symUnop: " + op.String())
}

// symConv converts a symbolic integer/bool/float between basic kinds.
func (i *interpreter) symConv(dst types.BasicKind, x sym) value {
	if isIntKind(x.k) && isIntKind(dst) {
		return mkIntVal(dst, wrapAny(dst, x.e))
	}
	if x.k == types.Bool && dst == types.Bool {
		return x
	}
	return i.fpConv(dst, x)
}

type runtimeErr string

func (e runtimeErr) Error() string { return "runtime error: " + string(e) }
func (e runtimeErr) RuntimeError() {}
