package interp

// Floating point (placeholder: symbolic floats are introduced for the gocty float targets).

import (
	"go/token"
	"go/types"
)

func (i *interpreter) fpBinop(op token.Token, k types.BasicKind, x, y value) value {
	i.abort("unsupported", "symbolic floating point operation "+op.String())
	return nil
}

func (i *interpreter) fpConv(dst types.BasicKind, x sym) value {
	i.abort("unsupported", "symbolic conversion involving floating point")
	return nil
}

func (i *interpreter) bigSetFloat64Sym(cell value, z bigF, x sym) value {
	i.abort("unsupported", "SetFloat64 of symbolic float")
	return nil
}

func (i *interpreter) bigFloat64Sym(x bigF) value {
	i.abort("unsupported", "Float64 of symbolic number")
	return nil
}
