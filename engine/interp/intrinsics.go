package interp

// Harness vocabulary (v* functions defined in the overlay file zz_verif_nondet.go) intercepted by name.

import (
	"fmt"
	"os"
	"go/types"
	"math/big"
	"runtime"
	"strings"

	"golang.org/x/tools/go/ssa"
)

func strArg(v value) string {
	s, ok := v.(string)
	if !ok {
		panic(internalError{"harness identifier argument must be a concrete string"})
	}
	return s
}

func (ex *Explorer) intrinsic(fn *ssa.Function) externalFn {
	if fn.Pkg == nil || !ex.HarnessPkgs[fn.Pkg.Pkg.Path()] {
		return nil
	}
	return intrinsics[fn.Name()]
}

var intrinsics map[string]externalFn

func init() {
	intrinsics = map[string]externalFn{
		"vSymbolic": func(fr *frame, args []value) value { return true },
		"vLog":      func(fr *frame, args []value) value { return nil },
		"vAnd": func(fr *frame, args []value) value { return fr.i.vand(args[0], args[1]) },
		"vOr": func(fr *frame, args []value) value {
			return fr.i.vnot(fr.i.vand(fr.i.vnot(args[0]), fr.i.vnot(args[1])))
		},
		"vIte": func(fr *frame, args []value) value {
			if c, ok := args[0].(bool); ok {
				if c {
					return args[1]
				}
				return args[2]
			}
			return mkIntVal(types.Int64, mkIte(args[0].(sym).e, exprOf(args[1]), exprOf(args[2])))
		},
		"vIteB": func(fr *frame, args []value) value {
			if c, ok := args[0].(bool); ok {
				if c {
					return args[1]
				}
				return args[2]
			}
			return mkBoolVal(mkIte(args[0].(sym).e, exprOf(args[1]), exprOf(args[2])))
		},
		"vTier":     func(fr *frame, args []value) value { return fr.i.ex.Tier },
		"vInt": func(fr *frame, args []value) value {
			lo, hi := asInt64(args[1]), asInt64(args[2])
			if lo > hi {
				fr.i.abort("infeasible", "vInt with empty range")
			}
			if lo == hi {
				// still a named input so that replay files stay aligned
				fr.i.ctx.freshName(strArg(args[0]))
				return lo
			}
			e := fr.i.ctx.newIntVar(strArg(args[0]), types.Int64, big.NewInt(lo), big.NewInt(hi))
			return sym{types.Int64, e}
		},
		"vBool": func(fr *frame, args []value) value {
			return sym{types.Bool, fr.i.ctx.newBoolVar(strArg(args[0]))}
		},
		"vChoice": func(fr *frame, args []value) value {
			n := int(asInt64(args[1]))
			if n <= 0 {
				fr.i.abort("infeasible", "vChoice over nothing")
			}
			if n == 1 {
				return 0 // not recorded: the native vChoice does not consume a choice either
			}
			fr.i.ex.mu.Lock()
			fr.i.ex.St.ShapeForks++
			fr.i.ex.mu.Unlock()
			k := fr.i.choose(n)
			fr.i.ctx.choices = append(fr.i.ctx.choices, k)
			return k
		},
		"vBytes": func(fr *frame, args []value) value {
			n := int(asInt64(args[1]))
			name := strArg(args[0])
			out := make([]value, n)
			for k := 0; k < n; k++ {
				e := fr.i.ctx.newIntVar(fmt.Sprintf("%s[%d]", name, k), types.Uint8, nil, nil)
				out[k] = sym{types.Uint8, e}
			}
			fr.i.ctx.inputLen = n
			return out
		},
		"vStr": func(fr *frame, args []value) value {
			n := int(asInt64(args[1]))
			name := strArg(args[0])
			lo, hi := int64(args[2].(uint8)), int64(args[3].(uint8))
			out := make([]value, n)
			for k := 0; k < n; k++ {
				if lo == hi {
					fr.i.ctx.freshName(fmt.Sprintf("%s[%d]", name, k))
					out[k] = uint8(lo)
					continue
				}
				e := fr.i.ctx.newIntVar(fmt.Sprintf("%s[%d]", name, k), types.Uint8, big.NewInt(lo), big.NewInt(hi))
				out[k] = sym{types.Uint8, e}
			}
			return mkStr(out)
		},
		"vAssume": func(fr *frame, args []value) value {
			switch c := args[0].(type) {
			case bool:
				if !c {
					fr.i.abort("infeasible", "assumption is false")
				}
			case sym:
				if fr.i.ctx.checkSat(c.e) == resUnsat {
					fr.i.abort("infeasible", "assumption is unsatisfiable")
				}
				fr.i.ctx.assume(c.e)
			}
			return nil
		},
		"vAssert": func(fr *frame, args []value) value {
			fr.i.vAssert(strArg(args[0]), args[1], "")
			return nil
		},
		"vReach": func(fr *frame, args []value) value {
			id := strArg(args[0])
			fr.i.ex.mu.Lock()
			fr.i.ex.St.Reach[id]++
			fr.i.ex.mu.Unlock()
			fr.i.ctx.events = append(fr.i.ctx.events, pathEvent{Kind: "reach", ID: id})
			return nil
		},
		"vObserve": func(fr *frame, args []value) value {
			id := strArg(args[0])
			ev := pathEvent{Kind: "observe", ID: id}
			switch v := args[1].(type) {
			case sym:
				ev.e = v.e
			default:
				ev.Value = bigOfInt(v).String()
			}
			fr.i.ctx.events = append(fr.i.ctx.events, ev)
			return nil
		},
		"vObserveBool": func(fr *frame, args []value) value {
			id := strArg(args[0])
			ev := pathEvent{Kind: "observe", ID: id}
			switch v := args[1].(type) {
			case sym:
				ev.e = v.e
			case bool:
				ev.Value = fmt.Sprint(v)
			}
			fr.i.ctx.events = append(fr.i.ctx.events, ev)
			return nil
		},
		"vKnown": func(fr *frame, args []value) value {
			fr.i.ctx.known[strArg(args[0])] = exprOf(args[1])
			return nil
		},
		"vMapOrder": func(fr *frame, args []value) value {
			fr.i.ctx.mapAll = args[0].(bool)
			if fr.i.ctx.mapAll {
				fr.i.ctx.mapEpoch++
			}
			return nil
		},
		"vExpectPanic": func(fr *frame, args []value) (res value) {
			i := fr.i
			depth := i.callDepth
			defer func() {
				r := recover()
				if r == nil {
					return
				}
				i.callDepth = depth
				if os.Getenv("SYMGO_DEBUG") != "" {
					if _, isAbort := r.(pathAbort); !isAbort {
						msg := fmt.Sprint(r)
						if tp, ok := r.(targetPanic); ok {
							msg = i.panicString(tp.v)
						}
						fmt.Fprintf(os.Stderr, "DEBUG expected-panic: %T %s\n  stack: %s\n", r, msg, strings.Join(i.dbgStack, "\n   "))
					}
				}
				i.dbgStack = nil
				switch p := r.(type) {
				case pathAbort, internalError:
					panic(r)
				case targetPanic:
					res = true
				case runtime.Error:
					if _, mine := p.(runtimeErr); mine {
						res = true
						return
					}
					msg := p.Error()
					if strings.Contains(msg, "index out of range") || strings.Contains(msg, "slice bounds out of range") ||
						strings.Contains(msg, "integer divide by zero") || strings.Contains(msg, "nil pointer dereference") {
						res = true
						return
					}
					panic(r)
				case string:
					if strings.HasPrefix(p, "interface conversion:") || strings.HasPrefix(p, "value method") {
						res = true
						return
					}
					panic(r)
				default:
					panic(r)
				}
			}()
			call(i, fr, fr.fn.Pos(), args[0], nil)
			return false
		},
	}
}
