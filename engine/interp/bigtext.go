package interp

// Decimal text of symbolic numbers: exact for small fixed-point values (digits become symbolic bytes).

import (
	"fmt"
	"go/types"
	"math/big"
	"strings"
)

// bigTextSym renders a symbolic fixed-point number whose integer part has at most 4 digits and whose scale is <= 2
// (quarters). Text('f',-1) and String() (= 'g',10) agree on such values: plain decimal without exponent.
// numtext is the decimal text of a symbolic fixed-point number, kept unexpanded: comparing two such texts is
// comparing the numbers (distinct quarter-integers have distinct shortest decimal texts). Any operation that needs
// the characters expands it into (partly symbolic) bytes, forking on the digit count.
type numtext struct {
	i      *interpreter
	f      bigF
	format uint8
	prec   int
}

func (n numtext) expand() value { return n.i.bigTextDigits(n.f, n.format, n.prec) }

func (i *interpreter) bigTextSym(x bigF, format uint8, prec int) value {
	if x.num == nil || x.scale > 2 || !((format == 'f' && prec == -1) || (format == 'g' && prec == 10) || (format == 'g' && prec == -1)) {
		i.abort("unsupported", fmt.Sprintf("decimal text (%c,%d) of a symbolic number outside the small fixed-point model", format, prec))
	}
	return numtext{i, x, format, prec}
}

// numtextEq compares a lazy number text with another string value.
func (i *interpreter) numtextEq(a numtext, y value) value {
	switch b := y.(type) {
	case numtext:
		// 'g' with 10 digits switches to exponent form for large values; both sides use the same rule only when
		// the formats agree
		if (a.format == 'g' && a.prec == 10) != (b.format == 'g' && b.prec == 10) {
			return i.strEq(a.expand(), b.expand())
		}
		xa, ya := cmpOperands(a.f, b.f)
		return mkBoolVal(mkEq(xa, ya))
	case string:
		r, ok := new(big.Rat).SetString(b)
		if !ok || len(b) == 0 || b[0] == '+' || b[0] == '.' || strings.ContainsAny(b, "eE/_") {
			return false
		}
		// canonical plain decimal?
		canon := new(big.Float).SetPrec(512).SetRat(r).Text('f', -1)
		if canon != b {
			return false
		}
		if a.format == 'g' && a.prec == 10 && (len(strings.TrimLeft(strings.Replace(b, ".", "", 1), "-0")) > 10) {
			return i.strEq(a.expand(), b)
		}
		return mkBoolVal(mkEq(a.f.sv, mkReal(r)))
	}
	return i.strEq(a.expand(), y)
}

func (i *interpreter) bigTextDigits(x bigF, format uint8, prec int) value {
	if x.num == nil || x.scale > 2 || !((format == 'f' && prec == -1) || (format == 'g' && prec == 10) || (format == 'g' && prec == -1)) {
		i.abort("unsupported", fmt.Sprintf("decimal text (%c,%d) of a symbolic number outside the small fixed-point model", format, prec))
	}
	den := pow2(x.scale)
	neg := i.branch(mkLt(x.num, mkInt64(0)))
	an := x.num
	if neg {
		an = mkNeg(x.num)
	}
	ip := mkDiv(an, mkInt(den))
	fp := mkMod(an, mkInt(den))
	var out []value
	if neg {
		out = append(out, uint8('-'))
	}
	// number of digits of the integer part
	nd := 1
	for nd < 5 && i.branch(mkGe(ip, mkInt(new(big.Int).Exp(big.NewInt(10), big.NewInt(int64(nd)), nil)))) {
		nd++
	}
	if nd == 5 {
		i.abort("cut", "decimal text of a symbolic number with more than 4 integer digits")
	}
	ip = clampBounds(ip, big.NewInt(0), new(big.Int).Sub(new(big.Int).Exp(big.NewInt(10), big.NewInt(int64(nd)), nil), big.NewInt(1)))
	for d := nd - 1; d >= 0; d-- {
		p := mkInt(new(big.Int).Exp(big.NewInt(10), big.NewInt(int64(d)), nil))
		digit := mkMod(mkDiv(ip, p), mkInt64(10))
		out = append(out, mkIntVal(types.Uint8, mkAdd(digit, mkInt64('0'))))
	}
	if x.scale > 0 {
		f := i.concretize(fp, 0, den.Int64()-1)
		if f != 0 {
			r := new(big.Rat).SetFrac(big.NewInt(f), den)
			txt := r.FloatString(x.scale) // e.g. "0.25", "0.50"
			// strip leading "0" and trailing zeros
			txt = txt[1:]
			for len(txt) > 0 && txt[len(txt)-1] == '0' {
				txt = txt[:len(txt)-1]
			}
			for k := 0; k < len(txt); k++ {
				out = append(out, txt[k])
			}
		}
	}
	return mkStr(out)
}
