// Copyright 2013 The Go Authors. All rights reserved.
// Use of this source code is governed by a BSD-style
// license that can be found in the LICENSE file.

package interp

// Emulated functions that we cannot interpret because they are
// external or because they use "unsafe" or "reflect" operations.

import (
	"bytes"
	"math"
	"os"
	"runtime"
	"sort"
	"strconv"
	"strings"
	"time"
	"unicode/utf8"
)

type externalFn func(fr *frame, args []value) value

// TODO(adonovan): fix: reflect.Value abstracts an lvalue or an
// rvalue; Set() causes mutations that can be observed via aliases.
// We have not captured that correctly here.

// Key strings are from Function.String().
var externals = make(map[string]externalFn)

func init() {
	// That little dot ۰ is an Arabic zero numeral (U+06F0), categories [Nd].
	for k, v := range map[string]externalFn{
		"(reflect.Value).Bool":            ext۰reflect۰Value۰Bool,
		"(reflect.Value).CanAddr":         ext۰reflect۰Value۰CanAddr,
		"(reflect.Value).CanInterface":    ext۰reflect۰Value۰CanInterface,
		"(reflect.Value).Elem":            ext۰reflect۰Value۰Elem,
		"(reflect.Value).Field":           ext۰reflect۰Value۰Field,
		"(reflect.Value).Float":           ext۰reflect۰Value۰Float,
		"(reflect.Value).Index":           ext۰reflect۰Value۰Index,
		"(reflect.Value).Int":             ext۰reflect۰Value۰Int,
		"(reflect.Value).Interface":       ext۰reflect۰Value۰Interface,
		"(reflect.Value).IsNil":           ext۰reflect۰Value۰IsNil,
		"(reflect.Value).IsValid":         ext۰reflect۰Value۰IsValid,
		"(reflect.Value).Kind":            ext۰reflect۰Value۰Kind,
		"(reflect.Value).Len":             ext۰reflect۰Value۰Len,
		"(reflect.Value).MapIndex":        ext۰reflect۰Value۰MapIndex,
		"(reflect.Value).MapKeys":         ext۰reflect۰Value۰MapKeys,
		"(reflect.Value).NumField":        ext۰reflect۰Value۰NumField,
		"(reflect.Value).NumMethod":       ext۰reflect۰Value۰NumMethod,
		"(reflect.Value).Pointer":         ext۰reflect۰Value۰Pointer,
		"(reflect.Value).Set":             ext۰reflect۰Value۰Set,
		"(reflect.Value).SetInt":          ext۰reflect۰Value۰SetInt,
		"(reflect.Value).SetUint":         ext۰reflect۰Value۰SetUint,
		"(reflect.Value).SetFloat":        ext۰reflect۰Value۰SetFloat,
		"(reflect.Value).SetBool":         ext۰reflect۰Value۰SetBool,
		"(reflect.Value).SetString":       ext۰reflect۰Value۰SetString,
		"(reflect.Value).CanSet":          ext۰reflect۰Value۰CanAddr,
		"(reflect.rtype).AssignableTo":    ext۰reflect۰rtype۰AssignableTo,
		"(reflect.rtype).ConvertibleTo":   ext۰reflect۰rtype۰ConvertibleTo,
		"(reflect.rtype).Name":            ext۰reflect۰rtype۰Name,
		"(reflect.rtype).Key":             ext۰reflect۰rtype۰Key,
		"(reflect.Value).String":          ext۰reflect۰Value۰String,
		"(reflect.Value).Type":            ext۰reflect۰Value۰Type,
		"(reflect.Value).Uint":            ext۰reflect۰Value۰Uint,
		"(reflect.error).Error":           ext۰reflect۰error۰Error,
		"(reflect.rtype).Bits":            ext۰reflect۰rtype۰Bits,
		"(reflect.rtype).Elem":            ext۰reflect۰rtype۰Elem,
		"(reflect.rtype).Field":           ext۰reflect۰rtype۰Field,
		"(reflect.rtype).In":              ext۰reflect۰rtype۰In,
		"(reflect.rtype).Kind":            ext۰reflect۰rtype۰Kind,
		"(reflect.rtype).NumField":        ext۰reflect۰rtype۰NumField,
		"(reflect.rtype).NumIn":           ext۰reflect۰rtype۰NumIn,
		"(reflect.rtype).NumMethod":       ext۰reflect۰rtype۰NumMethod,
		"(reflect.rtype).NumOut":          ext۰reflect۰rtype۰NumOut,
		"(reflect.rtype).Out":             ext۰reflect۰rtype۰Out,
		"(reflect.rtype).Size":            ext۰reflect۰rtype۰Size,
		"(reflect.rtype).String":          ext۰reflect۰rtype۰String,
		"bytes.Equal":                     ext۰bytes۰Equal,
		"bytes.IndexByte":                 ext۰bytes۰IndexByte,
		"fmt.Sprint":                      ext۰fmt۰Sprint,
		"math.Abs":                        ext۰math۰Abs,
		"math.Copysign":                   ext۰math۰Copysign,
		"math.Exp":                        ext۰math۰Exp,
		"math.Float32bits":                ext۰math۰Float32bits,
		"math.Float32frombits":            ext۰math۰Float32frombits,
		"math.Float64bits":                ext۰math۰Float64bits,
		"math.Float64frombits":            ext۰math۰Float64frombits,
		"math.Inf":                        ext۰math۰Inf,
		"math.IsNaN":                      ext۰math۰IsNaN,
		"math.Ldexp":                      ext۰math۰Ldexp,
		"math.Log":                        ext۰math۰Log,
		"math.Min":                        ext۰math۰Min,
		"math.NaN":                        ext۰math۰NaN,
		"math.Sqrt":                       ext۰math۰Sqrt,
		"os.Exit":                         ext۰os۰Exit,
		"os.Getenv":                       ext۰os۰Getenv,
		"reflect.New":                     ext۰reflect۰New,
		"reflect.SliceOf":                 ext۰reflect۰SliceOf,
		"reflect.TypeOf":                  ext۰reflect۰TypeOf,
		"reflect.ValueOf":                 ext۰reflect۰ValueOf,
		"reflect.Zero":                    ext۰reflect۰Zero,
		"runtime.Breakpoint":              ext۰runtime۰Breakpoint,
		"runtime.GC":                      ext۰runtime۰GC,
		"runtime.GOMAXPROCS":              ext۰runtime۰GOMAXPROCS,
		"runtime.GOROOT":                  ext۰runtime۰GOROOT,
		"runtime.Goexit":                  ext۰runtime۰Goexit,
		"runtime.Gosched":                 ext۰runtime۰Gosched,
		"runtime.NumCPU":                  ext۰runtime۰NumCPU,
		"sort.Float64s":                   ext۰sort۰Float64s,
		"sort.Ints":                       ext۰sort۰Ints,
		"sort.Strings":                    ext۰sort۰Strings,
		"strconv.Atoi":                    ext۰strconv۰Atoi,
		"strconv.Itoa":                    ext۰strconv۰Itoa,
		"strconv.FormatFloat":             ext۰strconv۰FormatFloat,
		"strings.Count":                   ext۰strings۰Count,
		"strings.EqualFold":               ext۰strings۰EqualFold,
		"strings.Index":                   ext۰strings۰Index,
		"strings.IndexByte":               ext۰strings۰IndexByte,
		"strings.Replace":                 ext۰strings۰Replace,
		"strings.ToLower":                 ext۰strings۰ToLower,
		"time.Sleep":                      ext۰time۰Sleep,
		"unicode/utf8.DecodeRuneInString": ext۰unicode۰utf8۰DecodeRuneInString,
	} {
		externals[k] = v
	}
}

func ext۰bytes۰Equal(fr *frame, args []value) value {
	// func Equal(a, b []byte) bool
	a := args[0].([]value)
	b := args[1].([]value)
	if len(a) != len(b) {
		return false
	}
	for i := range a {
		if a[i] != b[i] {
			return false
		}
	}
	return true
}

func ext۰bytes۰IndexByte(fr *frame, args []value) value {
	// func IndexByte(s []byte, c byte) int
	s := args[0].([]value)
	c := args[1].(byte)
	for i, b := range s {
		if b.(byte) == c {
			return i
		}
	}
	return -1
}

func ext۰math۰Float64frombits(fr *frame, args []value) value {
	u, ok := args[0].(uint64)
	if !ok {
		fr.i.abort("unsupported", "math.Float64frombits of symbolic bits")
	}
	return math.Float64frombits(u)
}

func ext۰math۰Float64bits(fr *frame, args []value) value {
	return math.Float64bits(args[0].(float64))
}

func ext۰math۰Float32frombits(fr *frame, args []value) value {
	u, ok := args[0].(uint32)
	if !ok {
		fr.i.abort("unsupported", "math.Float32frombits of symbolic bits")
	}
	return math.Float32frombits(u)
}

func ext۰math۰Abs(fr *frame, args []value) value {
	return math.Abs(args[0].(float64))
}

func ext۰math۰Copysign(fr *frame, args []value) value {
	return math.Copysign(args[0].(float64), args[1].(float64))
}

func ext۰math۰Exp(fr *frame, args []value) value {
	return math.Exp(args[0].(float64))
}

func ext۰math۰Float32bits(fr *frame, args []value) value {
	return math.Float32bits(args[0].(float32))
}

func ext۰math۰Min(fr *frame, args []value) value {
	return math.Min(args[0].(float64), args[1].(float64))
}

func ext۰math۰NaN(fr *frame, args []value) value {
	return math.NaN()
}

func ext۰math۰IsNaN(fr *frame, args []value) value {
	return math.IsNaN(args[0].(float64))
}

func ext۰math۰Inf(fr *frame, args []value) value {
	return math.Inf(args[0].(int))
}

func ext۰math۰Ldexp(fr *frame, args []value) value {
	return math.Ldexp(args[0].(float64), args[1].(int))
}

func ext۰math۰Log(fr *frame, args []value) value {
	return math.Log(args[0].(float64))
}

func ext۰math۰Sqrt(fr *frame, args []value) value {
	return math.Sqrt(args[0].(float64))
}

func ext۰runtime۰Breakpoint(fr *frame, args []value) value {
	runtime.Breakpoint()
	return nil
}

func ext۰sort۰Ints(fr *frame, args []value) value {
	x := args[0].([]value)
	sort.Slice(x, func(i, j int) bool {
		return x[i].(int) < x[j].(int)
	})
	return nil
}
func ext۰sort۰Strings(fr *frame, args []value) value {
	x := args[0].([]value)
	sort.Slice(x, func(i, j int) bool {
		return x[i].(string) < x[j].(string)
	})
	return nil
}
func ext۰sort۰Float64s(fr *frame, args []value) value {
	x := args[0].([]value)
	sort.Slice(x, func(i, j int) bool {
		return x[i].(float64) < x[j].(float64)
	})
	return nil
}

func ext۰strconv۰Atoi(fr *frame, args []value) value {
	i, e := strconv.Atoi(args[0].(string))
	if e != nil {
		return tuple{i, iface{fr.i.runtimeErrorString, e.Error()}}
	}
	return tuple{i, iface{}}
}
func ext۰strconv۰Itoa(fr *frame, args []value) value {
	return strconv.Itoa(args[0].(int))
}
func ext۰strconv۰FormatFloat(fr *frame, args []value) value {
	return strconv.FormatFloat(args[0].(float64), args[1].(byte), args[2].(int), args[3].(int))
}

func ext۰strings۰Count(fr *frame, args []value) value {
	return strings.Count(args[0].(string), args[1].(string))
}

func ext۰strings۰EqualFold(fr *frame, args []value) value {
	return strings.EqualFold(args[0].(string), args[1].(string))
}
func ext۰strings۰IndexByte(fr *frame, args []value) value {
	return strings.IndexByte(args[0].(string), args[1].(byte))
}

func ext۰strings۰Index(fr *frame, args []value) value {
	return strings.Index(args[0].(string), args[1].(string))
}

func ext۰strings۰Replace(fr *frame, args []value) value {
	// func Replace(s, old, new string, n int) string
	s := args[0].(string)
	new := args[1].(string)
	old := args[2].(string)
	n := args[3].(int)
	return strings.Replace(s, old, new, n)
}

func ext۰strings۰ToLower(fr *frame, args []value) value {
	return strings.ToLower(args[0].(string))
}

func ext۰runtime۰GOMAXPROCS(fr *frame, args []value) value {
	// Ignore args[0]; don't let the interpreted program
	// set the interpreter's GOMAXPROCS!
	return runtime.GOMAXPROCS(0)
}

func ext۰runtime۰Goexit(fr *frame, args []value) value {
	// TODO(adonovan): don't kill the interpreter's main goroutine.
	runtime.Goexit()
	return nil
}

func ext۰runtime۰GOROOT(fr *frame, args []value) value {
	return runtime.GOROOT()
}

func ext۰runtime۰GC(fr *frame, args []value) value {
	runtime.GC()
	return nil
}

func ext۰runtime۰Gosched(fr *frame, args []value) value {
	runtime.Gosched()
	return nil
}

func ext۰runtime۰NumCPU(fr *frame, args []value) value {
	return runtime.NumCPU()
}

func ext۰time۰Sleep(fr *frame, args []value) value {
	time.Sleep(time.Duration(args[0].(int64)))
	return nil
}

func ext۰os۰Getenv(fr *frame, args []value) value {
	name := args[0].(string)
	switch name {
	case "GOSSAINTERP":
		return "1"
	}
	return os.Getenv(name)
}

func ext۰os۰Exit(fr *frame, args []value) value {
	panic(exitPanic(args[0].(int)))
}

func ext۰unicode۰utf8۰DecodeRuneInString(fr *frame, args []value) value {
	r, n := utf8.DecodeRuneInString(args[0].(string))
	return tuple{r, n}
}

// A fake function for turning an arbitrary value into a string.
// Handles only the cases needed by the tests.
// Uses same logic as 'print' built-in.
func ext۰fmt۰Sprint(fr *frame, args []value) value {
	buf := new(bytes.Buffer)
	wasStr := false
	for i, arg := range args[0].([]value) {
		x := arg.(iface).v
		_, isStr := x.(string)
		if i > 0 && !wasStr && !isStr {
			buf.WriteByte(' ')
		}
		wasStr = isStr
		buf.WriteString(toString(x))
	}
	return buf.String()
}
