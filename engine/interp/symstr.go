package interp

// Strings with symbolic bytes. A symbolic string has a concrete length and a byte sequence whose elements are
// concrete or symbolic uint8; all string operations reduce to integer terms over the bytes.

import (
	"fmt"
	"go/token"
	"go/types"
)

// mkStr normalises a byte sequence to a native string when every byte is concrete.
func mkStr(bs []value) value {
	allc := true
	for _, b := range bs {
		if _, ok := b.(uint8); !ok {
			allc = false
			break
		}
	}
	if allc {
		buf := make([]byte, len(bs))
		for k, b := range bs {
			buf[k] = b.(uint8)
		}
		return string(buf)
	}
	return symstr(append([]value(nil), bs...))
}

func strBytes(v value) []value {
	switch v := v.(type) {
	case string:
		out := make([]value, len(v))
		for k := 0; k < len(v); k++ {
			out[k] = v[k]
		}
		return out
	case symstr:
		return []value(v)
	case numtext:
		return strBytes(v.expand())
	}
	panic(fmt.Sprintf("strBytes: %T", v))
}

func (i *interpreter) strEq(x, y value) value {
	if nx, ok := x.(numtext); ok {
		return i.numtextEq(nx, y)
	}
	if ny, ok := y.(numtext); ok {
		return i.numtextEq(ny, x)
	}
	a, b := strBytes(x), strBytes(y)
	if len(a) != len(b) {
		return false
	}
	acc := exTrue
	for k := range a {
		acc = mkAnd(acc, mkEq(exprOf(a[k]), exprOf(b[k])))
		if acc.op == "b" && !acc.bval {
			return false
		}
	}
	return mkBoolVal(acc)
}

// strLess returns the term for x < y (bytewise lexicographic).
func strLess(a, b []value) *expr {
	// from the end: less_k = a[k] < b[k] || (a[k]==b[k] && less_{k+1}); base: len(a) < len(b) when a is a prefix
	n := len(a)
	if len(b) < n {
		n = len(b)
	}
	res := mkBool(len(a) < len(b))
	for k := n - 1; k >= 0; k-- {
		ak, bk := exprOf(a[k]), exprOf(b[k])
		res = mkOr(mkLt(ak, bk), mkAnd(mkEq(ak, bk), res))
	}
	return res
}

func (i *interpreter) strBinop(op token.Token, x, y value) value {
	a, b := strBytes(x), strBytes(y)
	switch op {
	case token.ADD:
		return mkStr(append(append([]value(nil), a...), b...))
	case token.LSS:
		return mkBoolVal(strLess(a, b))
	case token.GTR:
		return mkBoolVal(strLess(b, a))
	case token.LEQ:
		return mkBoolVal(mkNot(strLess(b, a)))
	case token.GEQ:
		return mkBoolVal(mkNot(strLess(a, b)))
	}
	panic(fmt.Sprintf("strBinop: %s", op))
}

// convSym handles conversions that involve symbolic values; ok=false means "use the concrete path".
func (i *interpreter) convSym(ut_dst, ut_src types.Type, x value) (value, bool) {
	if nt, ok := x.(numtext); ok {
		x = nt.expand()
		if _, still := x.(symstr); !still {
			return nil, false
		}
	}
	switch xv := x.(type) {
	case sym:
		if db, ok := ut_dst.(*types.Basic); ok {
			if db.Kind() == types.String {
				// integer -> string (rune to UTF-8)
				if !i.branch(mkAnd(mkGe(xv.e, mkInt64(0)), mkLt(xv.e, mkInt64(0x80)))) {
					i.abort("cut", "string(rune) of non-ASCII symbolic rune")
				}
				return symstr{mkIntVal(types.Uint8, xv.e)}, true
			}
			return i.symConv(db.Kind(), xv), true
		}
	case symstr:
		switch d := ut_dst.(type) {
		case *types.Basic:
			if d.Kind() == types.String {
				return xv, true
			}
		case *types.Slice:
			switch d.Elem().Underlying().(*types.Basic).Kind() {
			case types.Byte:
				return append([]value(nil), []value(xv)...), true
			case types.Rune:
				out := make([]value, len(xv))
				for k, b := range xv {
					if sb, ok := b.(sym); ok {
						if !i.branch(mkLt(sb.e, mkInt64(0x80))) {
							i.abort("cut", "[]rune of non-ASCII symbolic string")
						}
						out[k] = mkIntVal(types.Int32, sb.e)
					} else {
						if b.(uint8) >= 0x80 {
							i.abort("cut", "[]rune of non-ASCII partly symbolic string")
						}
						out[k] = int32(b.(uint8))
					}
				}
				return out, true
			}
		}
	case []value:
		if s, ok := ut_src.(*types.Slice); ok {
			if db, ok := ut_dst.(*types.Basic); ok && db.Kind() == types.String {
				switch s.Elem().Underlying().(*types.Basic).Kind() {
				case types.Byte:
					hasSym := false
					for _, b := range xv {
						if _, ok := b.(sym); ok {
							hasSym = true
						}
					}
					if hasSym {
						return mkStr(xv), true
					}
				case types.Rune:
					hasSym := false
					for _, b := range xv {
						if _, ok := b.(sym); ok {
							hasSym = true
						}
					}
					if hasSym {
						out := make([]value, len(xv))
						for k, r := range xv {
							if sr, ok := r.(sym); ok {
								if !i.branch(mkAnd(mkGe(sr.e, mkInt64(0)), mkLt(sr.e, mkInt64(0x80)))) {
									i.abort("cut", "string([]rune) with non-ASCII symbolic rune")
								}
								out[k] = mkIntVal(types.Uint8, sr.e)
							} else {
								rr := r.(int32)
								if rr < 0 || rr >= 0x80 {
									i.abort("cut", "string([]rune) mixing non-ASCII and symbolic runes")
								}
								out[k] = uint8(rr)
							}
						}
						return mkStr(out), true
					}
				}
			}
		}
	}
	return nil, false
}
