// Copyright 2013 The Go Authors. All rights reserved.
// Use of this source code is governed by a BSD-style
// license that can be found in the LICENSE file.

package interp

// Emulated "reflect" package.
//
// We completely replace the built-in "reflect" package.
// The only thing clients can depend upon are that reflect.Type is an
// interface and reflect.Value is an (opaque) struct.

import (
	"fmt"
	"go/token"
	"go/types"
	"reflect"
	"unsafe"

	"golang.org/x/tools/go/ssa"
)

type opaqueType struct {
	types.Type
	name string
}

func (t *opaqueType) String() string { return t.name }

// A bogus "reflect" type-checker package.  Shared across interpreters.
var reflectTypesPackage = types.NewPackage("reflect", "reflect")

// rtype is the concrete type the interpreter uses to implement the
// reflect.Type interface.
//
// type rtype <opaque>
var rtypeType = makeNamedType("rtype", &opaqueType{nil, "rtype"})

// error is an (interpreted) named type whose underlying type is string.
// The interpreter uses it for all implementations of the built-in error
// interface that it creates.
// We put it in the "reflect" package for expedience.
//
// type error string
var errorType = makeNamedType("error", &opaqueType{nil, "error"})

func makeNamedType(name string, underlying types.Type) *types.Named {
	obj := types.NewTypeName(token.NoPos, reflectTypesPackage, name, nil)
	return types.NewNamed(obj, underlying, nil)
}

func makeReflectValue(t types.Type, v value) value {
	return structure{rtype{t}, v}
}

// Given a reflect.Value, returns its rtype.
func rV2T(v value) rtype {
	return v.(structure)[0].(rtype)
}

// rvAddr in the value slot of a reflect.Value marks it as addressable (settable): it stands for the variable at p.
type rvAddr struct{ p *value }

// Given a reflect.Value, returns the underlying interpreter value.
func rV2V(v value) value {
	x := v.(structure)[1]
	if a, ok := x.(rvAddr); ok {
		return *a.p
	}
	return x
}

// rvTarget returns the variable behind a settable reflect.Value.
func rvTarget(fr *frame, v value, what string) *value {
	a, ok := v.(structure)[1].(rvAddr)
	if !ok {
		panic(targetPanic{iface{fr.i.runtimeErrorString, "reflect: " + what + " using unaddressable value"}})
	}
	return a.p
}

// makeReflectType boxes up an rtype in a reflect.Type interface.
func makeReflectType(rt rtype) value {
	return iface{rtypeType, rt}
}

func ext۰reflect۰rtype۰Bits(fr *frame, args []value) value {
	// Signature: func (t reflect.rtype) int
	rt := args[0].(rtype).t
	basic, ok := rt.Underlying().(*types.Basic)
	if !ok {
		panic(fmt.Sprintf("reflect.Type.Bits(%T): non-basic type", rt))
	}
	return int(fr.i.sizes.Sizeof(basic)) * 8
}

func ext۰reflect۰rtype۰Elem(fr *frame, args []value) value {
	// Signature: func (t reflect.rtype) reflect.Type
	return makeReflectType(rtype{args[0].(rtype).t.Underlying().(interface {
		Elem() types.Type
	}).Elem()})
}

func ext۰reflect۰rtype۰Field(fr *frame, args []value) value {
	// Signature: func (t reflect.rtype, i int) reflect.StructField
	st := args[0].(rtype).t.Underlying().(*types.Struct)
	i := args[1].(int)
	f := st.Field(i)
	return structure{
		f.Name(),
		f.Pkg().Path(),
		makeReflectType(rtype{f.Type()}),
		st.Tag(i),
		0,         // TODO(adonovan): offset
		[]value{}, // TODO(adonovan): indices
		f.Anonymous(),
	}
}

func ext۰reflect۰rtype۰In(fr *frame, args []value) value {
	// Signature: func (t reflect.rtype, i int) int
	i := args[1].(int)
	return makeReflectType(rtype{args[0].(rtype).t.(*types.Signature).Params().At(i).Type()})
}

func ext۰reflect۰rtype۰Kind(fr *frame, args []value) value {
	// Signature: func (t reflect.rtype) uint
	return uint(reflectKind(args[0].(rtype).t))
}

func ext۰reflect۰rtype۰NumField(fr *frame, args []value) value {
	// Signature: func (t reflect.rtype) int
	return args[0].(rtype).t.Underlying().(*types.Struct).NumFields()
}

func ext۰reflect۰rtype۰NumIn(fr *frame, args []value) value {
	// Signature: func (t reflect.rtype) int
	return args[0].(rtype).t.Underlying().(*types.Signature).Params().Len()
}

func ext۰reflect۰rtype۰NumMethod(fr *frame, args []value) value {
	// Signature: func (t reflect.rtype) int
	return fr.i.prog.MethodSets.MethodSet(args[0].(rtype).t).Len()
}

func ext۰reflect۰rtype۰NumOut(fr *frame, args []value) value {
	// Signature: func (t reflect.rtype) int
	return args[0].(rtype).t.Underlying().(*types.Signature).Results().Len()
}

func ext۰reflect۰rtype۰Out(fr *frame, args []value) value {
	// Signature: func (t reflect.rtype, i int) int
	i := args[1].(int)
	return makeReflectType(rtype{args[0].(rtype).t.Underlying().(*types.Signature).Results().At(i).Type()})
}

func ext۰reflect۰rtype۰Size(fr *frame, args []value) value {
	// Signature: func (t reflect.rtype) uintptr
	return uintptr(fr.i.sizes.Sizeof(args[0].(rtype).t))
}

func ext۰reflect۰rtype۰String(fr *frame, args []value) value {
	// Signature: func (t reflect.rtype) string
	return args[0].(rtype).t.String()
}

func ext۰reflect۰New(fr *frame, args []value) value {
	// Signature: func (t reflect.Type) reflect.Value
	t := args[0].(iface).v.(rtype).t
	alloc := zero(t)
	return makeReflectValue(types.NewPointer(t), &alloc)
}

func ext۰reflect۰SliceOf(fr *frame, args []value) value {
	// Signature: func (t reflect.rtype) Type
	return makeReflectType(rtype{types.NewSlice(args[0].(iface).v.(rtype).t)})
}

func ext۰reflect۰TypeOf(fr *frame, args []value) value {
	// Signature: func (t reflect.rtype) Type
	return makeReflectType(rtype{args[0].(iface).t})
}

func ext۰reflect۰ValueOf(fr *frame, args []value) value {
	// Signature: func (interface{}) reflect.Value
	itf := args[0].(iface)
	return makeReflectValue(itf.t, itf.v)
}

func ext۰reflect۰Zero(fr *frame, args []value) value {
	// Signature: func (t reflect.Type) reflect.Value
	t := args[0].(iface).v.(rtype).t
	return makeReflectValue(t, zero(t))
}

func reflectKind(t types.Type) reflect.Kind {
	switch t := t.(type) {
	case *types.Named, *types.Alias:
		return reflectKind(t.Underlying())
	case *types.Basic:
		switch t.Kind() {
		case types.Bool:
			return reflect.Bool
		case types.Int:
			return reflect.Int
		case types.Int8:
			return reflect.Int8
		case types.Int16:
			return reflect.Int16
		case types.Int32:
			return reflect.Int32
		case types.Int64:
			return reflect.Int64
		case types.Uint:
			return reflect.Uint
		case types.Uint8:
			return reflect.Uint8
		case types.Uint16:
			return reflect.Uint16
		case types.Uint32:
			return reflect.Uint32
		case types.Uint64:
			return reflect.Uint64
		case types.Uintptr:
			return reflect.Uintptr
		case types.Float32:
			return reflect.Float32
		case types.Float64:
			return reflect.Float64
		case types.Complex64:
			return reflect.Complex64
		case types.Complex128:
			return reflect.Complex128
		case types.String:
			return reflect.String
		case types.UnsafePointer:
			return reflect.UnsafePointer
		}
	case *types.Array:
		return reflect.Array
	case *types.Chan:
		return reflect.Chan
	case *types.Signature:
		return reflect.Func
	case *types.Interface:
		return reflect.Interface
	case *types.Map:
		return reflect.Map
	case *types.Pointer:
		return reflect.Ptr
	case *types.Slice:
		return reflect.Slice
	case *types.Struct:
		return reflect.Struct
	}
	panic(fmt.Sprint("unexpected type: ", t))
}

func ext۰reflect۰Value۰Kind(fr *frame, args []value) value {
	// Signature: func (reflect.Value) uint
	if rV2T(args[0]).t == nil {
		return uint(reflect.Invalid)
	}
	return uint(reflectKind(rV2T(args[0]).t))
}

func ext۰reflect۰Value۰String(fr *frame, args []value) value {
	// Signature: func (reflect.Value) string
	switch x := rV2V(args[0]).(type) {
	case string, symstr, numtext:
		return x
	}
	return toString(rV2V(args[0]))
}

func ext۰reflect۰Value۰Type(fr *frame, args []value) value {
	// Signature: func (reflect.Value) reflect.Type
	return makeReflectType(rV2T(args[0]))
}

func ext۰reflect۰Value۰Uint(fr *frame, args []value) value {
	// Signature: func (reflect.Value) uint64
	if x, ok := rV2V(args[0]).(sym); ok {
		return fr.i.conv(types.Typ[types.Uint64], rV2T(args[0]).t, x)
	}
	switch v := rV2V(args[0]).(type) {
	case uint:
		return uint64(v)
	case uint8:
		return uint64(v)
	case uint16:
		return uint64(v)
	case uint32:
		return uint64(v)
	case uint64:
		return uint64(v)
	case uintptr:
		return uint64(v)
	}
	panic("reflect.Value.Uint")
}

func ext۰reflect۰Value۰Len(fr *frame, args []value) value {
	// Signature: func (reflect.Value) int
	switch v := rV2V(args[0]).(type) {
	case string:
		return len(v)
	case array:
		return len(v)
	case []value:
		return len(v)
	case *omap:
		return v.len()
	default:
		panic(fmt.Sprintf("reflect.(Value).Len(%v)", v))
	}
}

func ext۰reflect۰Value۰MapIndex(fr *frame, args []value) value {
	// Signature: func (reflect.Value) Value
	tValue := rV2T(args[0]).t.Underlying().(*types.Map).Elem()
	k := rV2V(args[1])
	switch m := rV2V(args[0]).(type) {
	case *omap:
		if v, ok := m.lookup(fr.i, k); ok {
			return makeReflectValue(tValue, v)
		}
	default:
		panic(fmt.Sprintf("(reflect.Value).MapIndex(%T, %T)", m, k))
	}
	return makeReflectValue(nil, nil)
}

func ext۰reflect۰Value۰MapKeys(fr *frame, args []value) value {
	// Signature: func (reflect.Value) []Value
	var keys []value
	tKey := rV2T(args[0]).t.Underlying().(*types.Map).Key()
	switch v := rV2V(args[0]).(type) {
	case *omap:
		if v != nil {
			for _, e := range v.entries {
				if !e.deleted {
					keys = append(keys, makeReflectValue(tKey, e.key))
				}
			}
		}
	default:
		panic(fmt.Sprintf("(reflect.Value).MapKeys(%T)", v))
	}
	return keys
}

func ext۰reflect۰Value۰NumField(fr *frame, args []value) value {
	// Signature: func (reflect.Value) int
	return len(rV2V(args[0]).(structure))
}

func ext۰reflect۰Value۰NumMethod(fr *frame, args []value) value {
	// Signature: func (reflect.Value) int
	return fr.i.prog.MethodSets.MethodSet(rV2T(args[0]).t).Len()
}

func ext۰reflect۰Value۰Pointer(fr *frame, args []value) value {
	// Signature: func (v reflect.Value) uintptr
	switch v := rV2V(args[0]).(type) {
	case *value:
		return uintptr(unsafe.Pointer(v))
	case []value:
		return reflect.ValueOf(v).Pointer()
	case *omap:
		return uintptr(unsafe.Pointer(v))
	case *ssa.Function:
		return uintptr(unsafe.Pointer(v))
	case *closure:
		return uintptr(unsafe.Pointer(v))
	default:
		panic(fmt.Sprintf("reflect.(Value).Pointer(%T)", v))
	}
}

func ext۰reflect۰Value۰Index(fr *frame, args []value) value {
	// Signature: func (v reflect.Value, i int) Value
	i := args[1].(int)
	t := rV2T(args[0]).t.Underlying()
	switch v := rV2V(args[0]).(type) {
	case array:
		return makeReflectValue(t.(*types.Array).Elem(), v[i])
	case []value:
		return makeReflectValue(t.(*types.Slice).Elem(), v[i])
	default:
		panic(fmt.Sprintf("reflect.(Value).Index(%T)", v))
	}
}

func ext۰reflect۰Value۰Bool(fr *frame, args []value) value {
	// Signature: func (reflect.Value) bool
	if x, ok := rV2V(args[0]).(sym); ok {
		return x
	}
	return rV2V(args[0]).(bool)
}

func ext۰reflect۰Value۰CanAddr(fr *frame, args []value) value {
	// Signature: func (v reflect.Value) bool
	_, ok := args[0].(structure)[1].(rvAddr)
	return ok
}

func ext۰reflect۰Value۰CanInterface(fr *frame, args []value) value {
	// Signature: func (v reflect.Value) bool
	// Always true for our representation.
	return true
}

func ext۰reflect۰Value۰Elem(fr *frame, args []value) value {
	// Signature: func (v reflect.Value) reflect.Value
	switch x := rV2V(args[0]).(type) {
	case iface:
		return makeReflectValue(x.t, x.v)
	case *value:
		et := rV2T(args[0]).t.Underlying().(*types.Pointer).Elem()
		if x == nil {
			return makeReflectValue(nil, nil) // the zero Value
		}
		return structure{rtype{et}, rvAddr{x}}
	default:
		panic(fmt.Sprintf("reflect.(Value).Elem(%T)", x))
	}
}

func ext۰reflect۰Value۰Field(fr *frame, args []value) value {
	// Signature: func (v reflect.Value, i int) reflect.Value
	v := args[0]
	i := args[1].(int)
	return makeReflectValue(rV2T(v).t.Underlying().(*types.Struct).Field(i).Type(), rV2V(v).(structure)[i])
}

func ext۰reflect۰Value۰Float(fr *frame, args []value) value {
	// Signature: func (reflect.Value) float64
	switch v := rV2V(args[0]).(type) {
	case float32:
		return float64(v)
	case float64:
		return float64(v)
	}
	panic("reflect.Value.Float")
}

func ext۰reflect۰Value۰Interface(fr *frame, args []value) value {
	// Signature: func (v reflect.Value) interface{}
	return ext۰reflect۰valueInterface(fr, args)
}

func ext۰reflect۰Value۰Int(fr *frame, args []value) value {
	// Signature: func (reflect.Value) int64
	if x, ok := rV2V(args[0]).(sym); ok {
		return fr.i.conv(types.Typ[types.Int64], rV2T(args[0]).t, x)
	}
	switch x := rV2V(args[0]).(type) {
	case int:
		return int64(x)
	case int8:
		return int64(x)
	case int16:
		return int64(x)
	case int32:
		return int64(x)
	case int64:
		return x
	default:
		panic(fmt.Sprintf("reflect.(Value).Int(%T)", x))
	}
}

func ext۰reflect۰Value۰IsNil(fr *frame, args []value) value {
	// Signature: func (reflect.Value) bool
	switch x := rV2V(args[0]).(type) {
	case *value:
		return x == nil
	case *omap:
		return x == nil
	case iface:
		return x.t == nil
	case []value:
		return x == nil
	case *ssa.Function:
		return x == nil
	case *ssa.Builtin:
		return x == nil
	case *closure:
		return x == nil
	default:
		panic(fmt.Sprintf("reflect.(Value).IsNil(%T)", x))
	}
}

func ext۰reflect۰Value۰IsValid(fr *frame, args []value) value {
	// Signature: func (reflect.Value) bool
	return rV2V(args[0]) != nil
}

func ext۰reflect۰Value۰Set(fr *frame, args []value) value {
	p := rvTarget(fr, args[0], "reflect.Value.Set")
	*p = copyVal(rV2V(args[1]))
	return nil
}

func rvSetBasic(fr *frame, args []value, src types.BasicKind, what string) value {
	p := rvTarget(fr, args[0], what)
	dst := rV2T(args[0]).t
	*p = fr.i.conv(dst, types.Typ[src], args[1])
	return nil
}

func ext۰reflect۰Value۰SetInt(fr *frame, args []value) value {
	return rvSetBasic(fr, args, types.Int64, "reflect.Value.SetInt")
}
func ext۰reflect۰Value۰SetUint(fr *frame, args []value) value {
	return rvSetBasic(fr, args, types.Uint64, "reflect.Value.SetUint")
}
func ext۰reflect۰Value۰SetFloat(fr *frame, args []value) value {
	return rvSetBasic(fr, args, types.Float64, "reflect.Value.SetFloat")
}
func ext۰reflect۰Value۰SetBool(fr *frame, args []value) value {
	return rvSetBasic(fr, args, types.Bool, "reflect.Value.SetBool")
}
func ext۰reflect۰Value۰SetString(fr *frame, args []value) value {
	return rvSetBasic(fr, args, types.String, "reflect.Value.SetString")
}

func ext۰reflect۰rtype۰AssignableTo(fr *frame, args []value) value {
	a, b := args[0].(rtype).t, args[1].(iface).v.(rtype).t
	if a == nil || b == nil {
		return false
	}
	return types.AssignableTo(a, b)
}

func ext۰reflect۰rtype۰ConvertibleTo(fr *frame, args []value) value {
	a, b := args[0].(rtype).t, args[1].(iface).v.(rtype).t
	if a == nil || b == nil {
		return false
	}
	return types.ConvertibleTo(a, b)
}

func ext۰reflect۰rtype۰Name(fr *frame, args []value) value {
	switch t := args[0].(rtype).t.(type) {
	case *types.Named:
		return t.Obj().Name()
	case *types.Basic:
		return t.Name()
	}
	return ""
}

func ext۰reflect۰rtype۰Key(fr *frame, args []value) value {
	return makeReflectType(rtype{args[0].(rtype).t.Underlying().(*types.Map).Key()})
}

func ext۰reflect۰valueInterface(fr *frame, args []value) value {
	// Signature: func (v reflect.Value, safe bool) interface{}
	v := args[0].(structure)
	return iface{rV2T(v).t, rV2V(v)}
}

func ext۰reflect۰error۰Error(fr *frame, args []value) value {
	return args[0]
}

// newMethod creates a new method of the specified name, package and receiver type.
func newMethod(pkg *ssa.Package, recvType types.Type, name string) *ssa.Function {
	// TODO(adonovan): fix: hack: currently the only part of Signature
	// that is needed is the "pointerness" of Recv.Type, and for
	// now, we'll set it to always be false since we're only
	// concerned with rtype.  Encapsulate this better.
	sig := types.NewSignature(types.NewVar(token.NoPos, nil, "recv", recvType), nil, nil, false)
	fn := pkg.Prog.NewFunction(name, sig, "fake reflect method")
	fn.Pkg = pkg
	return fn
}

func initReflect(i *interpreter) {
	ex := i.ex
	ex.reflectOnce.Do(func() { initReflectProg(ex, i) })
	i.reflectPackage = ex.reflectPackage
	i.rtypeMethods = ex.rtypeMethods
	i.errorMethods = ex.errorMethods
}

func initReflectProg(ex *Explorer, i *interpreter) {
	defer func() {
		ex.reflectPackage = i.reflectPackage
		ex.rtypeMethods = i.rtypeMethods
		ex.errorMethods = i.errorMethods
	}()
	i.reflectPackage = &ssa.Package{
		Prog:    i.prog,
		Pkg:     reflectTypesPackage,
		Members: make(map[string]ssa.Member),
	}

	// Clobber the type-checker's notion of reflect.Value's
	// underlying type so that it more closely matches the fake one
	// (at least in the number of fields---we lie about the type of
	// the rtype field).
	//
	// We must ensure that calls to (ssa.Value).Type() return the
	// fake type so that correct "shape" is used when allocating
	// variables, making zero values, loading, and storing.
	//
	// TODO(adonovan): obviously this is a hack.  We need a cleaner
	// way to fake the reflect package (almost---DeepEqual is fine).
	// One approach would be not to even load its source code, but
	// provide fake source files.  This would guarantee that no bad
	// information leaks into other packages.
	if r := i.prog.ImportedPackage("reflect"); r != nil {
		rV := r.Pkg.Scope().Lookup("Value").Type().(*types.Named)

		// delete bodies of the old methods
		mset := i.prog.MethodSets.MethodSet(rV)
		for j := 0; j < mset.Len(); j++ {
			i.prog.MethodValue(mset.At(j)).Blocks = nil
		}

		tEface := types.NewInterface(nil, nil).Complete()
		rV.SetUnderlying(types.NewStruct([]*types.Var{
			types.NewField(token.NoPos, r.Pkg, "t", tEface, false), // a lie
			types.NewField(token.NoPos, r.Pkg, "v", tEface, false),
		}, nil))
	}

	i.rtypeMethods = methodSet{
		"Bits":      newMethod(i.reflectPackage, rtypeType, "Bits"),
		"Elem":      newMethod(i.reflectPackage, rtypeType, "Elem"),
		"Field":     newMethod(i.reflectPackage, rtypeType, "Field"),
		"In":        newMethod(i.reflectPackage, rtypeType, "In"),
		"Kind":      newMethod(i.reflectPackage, rtypeType, "Kind"),
		"NumField":  newMethod(i.reflectPackage, rtypeType, "NumField"),
		"NumIn":     newMethod(i.reflectPackage, rtypeType, "NumIn"),
		"NumMethod": newMethod(i.reflectPackage, rtypeType, "NumMethod"),
		"NumOut":    newMethod(i.reflectPackage, rtypeType, "NumOut"),
		"Out":       newMethod(i.reflectPackage, rtypeType, "Out"),
		"Size":      newMethod(i.reflectPackage, rtypeType, "Size"),
		"String":    newMethod(i.reflectPackage, rtypeType, "String"),

		"AssignableTo":  newMethod(i.reflectPackage, rtypeType, "AssignableTo"),
		"ConvertibleTo": newMethod(i.reflectPackage, rtypeType, "ConvertibleTo"),
		"Name":          newMethod(i.reflectPackage, rtypeType, "Name"),
		"Key":           newMethod(i.reflectPackage, rtypeType, "Key"),
	}
	i.errorMethods = methodSet{
		"Error": newMethod(i.reflectPackage, errorType, "Error"),
	}
}
