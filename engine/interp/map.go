package interp

// Ordered maps. Go maps of the target program are association lists in insertion order (deterministic replay),
// with a native index for concrete keys of basic or pointer type. Keys may be symbolic: lookups then fork on
// key equality. Iteration order is insertion order unless the harness asked for all orders (vMapOrder).

import (
	"fmt"
	"go/types"
)

type mentry struct {
	key     value
	val     value
	deleted bool
}

type omap struct {
	keyType types.Type
	entries []*mentry
	idx     map[value]*mentry // concrete basic/pointer keys only
	nsym    int               // number of live entries whose key is not in idx
	n       int
	// iteration order chosen for this map in the current all-orders epoch (see vMapOrder)
	ordEpoch int
	ord      []int
}

func makeMap(kt types.Type) value {
	return &omap{keyType: kt, idx: map[value]*mentry{}}
}

func indexable(k value) bool {
	switch k.(type) {
	case bool, int, int8, int16, int32, int64, uint, uint8, uint16, uint32, uint64, uintptr, float32, float64, string, *value:
		return true
	}
	return false
}

func (m *omap) len() int {
	if m == nil {
		return 0
	}
	return m.n
}

func (m *omap) find(i *interpreter, k value) *mentry {
	if m == nil {
		return nil
	}
	kidx := indexable(k)
	if kidx {
		if e, ok := m.idx[k]; ok {
			return e
		}
		if m.nsym == 0 {
			return nil
		}
	}
	for _, e := range m.entries {
		if e.deleted {
			continue
		}
		if kidx && indexable(e.key) {
			continue // both concrete and indexable: would have been found
		}
		switch c := i.equals(m.keyType, e.key, k).(type) {
		case bool:
			if c {
				return e
			}
		case sym:
			if i.branch(c.e) {
				return e
			}
		}
	}
	return nil
}

func (m *omap) lookup(i *interpreter, k value) (value, bool) {
	if e := m.find(i, k); e != nil {
		return e.val, true
	}
	return nil, false
}

func (m *omap) insert(i *interpreter, k, v value) {
	if e := m.find(i, k); e != nil {
		e.val = v
		return
	}
	e := &mentry{key: k, val: v}
	m.entries = append(m.entries, e)
	if indexable(k) {
		m.idx[k] = e
	} else {
		m.nsym++
	}
	m.n++
}

func (m *omap) delete(i *interpreter, k value) {
	if m == nil {
		return
	}
	if e := m.find(i, k); e != nil {
		e.deleted = true
		if indexable(e.key) {
			delete(m.idx, e.key)
		} else {
			m.nsym--
		}
		m.n--
		// compact occasionally
		if len(m.entries) > 32 && m.n < len(m.entries)/2 {
			live := m.entries[:0:0]
			for _, e := range m.entries {
				if !e.deleted {
					live = append(live, e)
				}
			}
			m.entries = live
		}
	}
}

func (m *omap) clear() {
	if m == nil {
		return
	}
	for _, e := range m.entries {
		e.deleted = true
	}
	m.entries = nil
	m.idx = map[value]*mentry{}
	m.nsym, m.n = 0, 0
}

type omapIter struct {
	es []*mentry
	k  int
}

func (it *omapIter) next() tuple {
	for it.k < len(it.es) {
		e := it.es[it.k]
		it.k++
		if e.deleted {
			continue
		}
		return tuple{true, e.key, e.val}
	}
	return tuple{false, nil, nil}
}

var permTable = map[int][][]int{}

func perms(n int) [][]int {
	if p, ok := permTable[n]; ok {
		return p
	}
	var res [][]int
	var rec func(cur []int, used uint)
	rec = func(cur []int, used uint) {
		if len(cur) == n {
			res = append(res, append([]int(nil), cur...))
			return
		}
		for k := 0; k < n; k++ {
			if used&(1<<uint(k)) == 0 {
				rec(append(cur, k), used|1<<uint(k))
			}
		}
	}
	rec(nil, 0)
	return res
}

func init() {
	for n := 0; n <= 5; n++ {
		permTable[n] = perms(n)
	}
}

func (m *omap) rangeIter(i *interpreter) iter {
	if m == nil {
		return &omapIter{}
	}
	live := make([]*mentry, 0, m.n)
	for _, e := range m.entries {
		if !e.deleted {
			live = append(live, e)
		}
	}
	if i.ctx != nil && i.ctx.mapAll && len(live) >= 2 {
		if len(live) > 4 {
			i.abort("cut", fmt.Sprintf("all-orders iteration over a map with %d entries", len(live)))
		}
		// one order per map object and epoch: every range over the same map within one epoch sees the same order
		// (a new epoch starts at each vMapOrder(true)); the order itself is a free choice
		var p []int
		if m.ordEpoch == i.ctx.mapEpoch && len(m.ord) == len(live) {
			p = m.ord
		} else {
			ps := permTable[len(live)]
			p = ps[i.choose(len(ps))]
			i.ctx.mapOrders = append(i.ctx.mapOrders, len(live))
			m.ordEpoch, m.ord = i.ctx.mapEpoch, p
		}
		ord := make([]*mentry, len(live))
		for k, j := range p {
			ord[k] = live[j]
		}
		live = ord
	}
	return &omapIter{es: live}
}
