package interp

// Symbolic terms. An *expr is an SMT term of sort Bool, Int or Real (FP sorts are added for gocty float targets).
// Constructors fold constants and apply a few cheap simplifications so that concrete computation never reaches the
// solver. Terms are immutable DAGs; they are printed as SMT-LIB2 with let-free sharing through define-fun (solver.go).

import (
	"fmt"
	"math/big"
	"strings"
)

type smtSort uint8

const (
	sBool smtSort = iota
	sInt
	sReal
	sFP64
	sFP32
)

func (s smtSort) String() string {
	switch s {
	case sBool:
		return "Bool"
	case sInt:
		return "Int"
	case sReal:
		return "Real"
	case sFP64:
		return "(_ FloatingPoint 11 53)"
	case sFP32:
		return "(_ FloatingPoint 8 24)"
	}
	return "?"
}

type expr struct {
	op   string // "b" bool const, "i" int const, "r" real const, "var", or an SMT operator
	args []*expr
	sort smtSort
	bval bool
	ival *big.Int
	rval *big.Rat
	name string // var name / uninterpreted function name for op "uf"
	size int    // tree size (saturating)
	// cached interval for Int terms (nil = unbounded)
	lo, hi *big.Int
	bdone  bool
}

var (
	exTrue  = &expr{op: "b", sort: sBool, bval: true, size: 1}
	exFalse = &expr{op: "b", sort: sBool, bval: false, size: 1}
)

func mkBool(b bool) *expr {
	if b {
		return exTrue
	}
	return exFalse
}

func mkInt(v *big.Int) *expr { return &expr{op: "i", sort: sInt, ival: v, size: 1} }
func mkInt64(v int64) *expr  { return mkInt(big.NewInt(v)) }
func mkUint64(v uint64) *expr {
	return mkInt(new(big.Int).SetUint64(v))
}
func mkReal(v *big.Rat) *expr { return &expr{op: "r", sort: sReal, rval: v, size: 1} }

func mkVar(name string, s smtSort) *expr { return &expr{op: "var", sort: s, name: name, size: 1} }

func (e *expr) isConst() bool { return e.op == "b" || e.op == "i" || e.op == "r" }

func node(op string, s smtSort, args ...*expr) *expr {
	sz := 1
	for _, a := range args {
		sz += a.size
		if sz > 1<<30 {
			sz = 1 << 30
		}
	}
	return &expr{op: op, sort: s, args: args, size: sz}
}

// ---------- boolean ----------

func mkNot(a *expr) *expr {
	if a.op == "b" {
		return mkBool(!a.bval)
	}
	if a.op == "not" {
		return a.args[0]
	}
	return node("not", sBool, a)
}

func mkAnd(a, b *expr) *expr {
	if a.op == "b" {
		if a.bval {
			return b
		}
		return exFalse
	}
	if b.op == "b" {
		if b.bval {
			return a
		}
		return exFalse
	}
	if a == b {
		return a
	}
	return node("and", sBool, a, b)
}

func mkOr(a, b *expr) *expr {
	if a.op == "b" {
		if a.bval {
			return exTrue
		}
		return b
	}
	if b.op == "b" {
		if b.bval {
			return exTrue
		}
		return a
	}
	if a == b {
		return a
	}
	return node("or", sBool, a, b)
}

func mkImplies(a, b *expr) *expr { return mkOr(mkNot(a), b) }

func mkIte(c, a, b *expr) *expr {
	if c.op == "b" {
		if c.bval {
			return a
		}
		return b
	}
	if a == b {
		return a
	}
	if a.sort == sBool {
		if a.op == "b" && b.op == "b" {
			if a.bval == b.bval {
				return a
			}
			if a.bval {
				return c
			}
			return mkNot(c)
		}
		if a.op == "b" {
			if a.bval {
				return mkOr(c, b)
			}
			return mkAnd(mkNot(c), b)
		}
		if b.op == "b" {
			if b.bval {
				return mkOr(mkNot(c), a)
			}
			return mkAnd(c, a)
		}
	}
	if a.isConst() && b.isConst() && constEq(a, b) {
		return a
	}
	return node("ite", a.sort, c, a, b)
}

func constEq(a, b *expr) bool {
	switch a.op {
	case "b":
		return b.op == "b" && a.bval == b.bval
	case "i":
		return b.op == "i" && a.ival.Cmp(b.ival) == 0
	case "r":
		return b.op == "r" && a.rval.Cmp(b.rval) == 0
	}
	return false
}

// ---------- arithmetic (Int and Real share operators) ----------

func toRealE(a *expr) *expr {
	if a.sort == sReal {
		return a
	}
	if a.op == "i" {
		return mkReal(new(big.Rat).SetInt(a.ival))
	}
	return node("to_real", sReal, a)
}

func unify(a, b *expr) (*expr, *expr) {
	if a.sort == b.sort {
		return a, b
	}
	return toRealE(a), toRealE(b)
}

func isZero(a *expr) bool {
	return (a.op == "i" && a.ival.Sign() == 0) || (a.op == "r" && a.rval.Sign() == 0)
}
func isOne(a *expr) bool {
	return (a.op == "i" && a.ival.Cmp(big.NewInt(1)) == 0) || (a.op == "r" && a.rval.Cmp(big.NewRat(1, 1)) == 0)
}

func mkAdd(a, b *expr) *expr {
	a, b = unify(a, b)
	if a.op == "i" && b.op == "i" {
		return mkInt(new(big.Int).Add(a.ival, b.ival))
	}
	if a.op == "r" && b.op == "r" {
		return mkReal(new(big.Rat).Add(a.rval, b.rval))
	}
	if isZero(a) {
		return b
	}
	if isZero(b) {
		return a
	}
	// (x + c1) + c2
	if b.isConst() && a.op == "+" && a.args[1].isConst() {
		return mkAdd(a.args[0], mkAdd(a.args[1], b))
	}
	if a.isConst() {
		a, b = b, a
	}
	return node("+", a.sort, a, b)
}

func mkNeg(a *expr) *expr {
	if a.op == "i" {
		return mkInt(new(big.Int).Neg(a.ival))
	}
	if a.op == "r" {
		return mkReal(new(big.Rat).Neg(a.rval))
	}
	if a.op == "-" && len(a.args) == 1 {
		return a.args[0]
	}
	return node("-", a.sort, a)
}

func mkSub(a, b *expr) *expr {
	a, b = unify(a, b)
	if b.isConst() {
		return mkAdd(a, mkNeg(b))
	}
	if isZero(a) {
		return mkNeg(b)
	}
	if a == b {
		if a.sort == sInt {
			return mkInt64(0)
		}
		return mkReal(new(big.Rat))
	}
	return node("-", a.sort, a, b)
}

func mkMul(a, b *expr) *expr {
	a, b = unify(a, b)
	if a.op == "i" && b.op == "i" {
		return mkInt(new(big.Int).Mul(a.ival, b.ival))
	}
	if a.op == "r" && b.op == "r" {
		return mkReal(new(big.Rat).Mul(a.rval, b.rval))
	}
	if isZero(a) || isZero(b) {
		if a.sort == sInt {
			return mkInt64(0)
		}
		return mkReal(new(big.Rat))
	}
	if isOne(a) {
		return b
	}
	if isOne(b) {
		return a
	}
	if b.isConst() {
		a, b = b, a
	}
	if a.isConst() && b.op == "ite" && b.args[1].isConst() && b.args[2].isConst() {
		return mkIte(b.args[0], mkMul(a, b.args[1]), mkMul(a, b.args[2]))
	}
	return node("*", a.sort, a, b)
}

// mkRDiv is real division.
func mkRDiv(a, b *expr) *expr {
	a, b = toRealE(a), toRealE(b)
	if b.op == "r" && b.rval.Sign() != 0 {
		if a.op == "r" {
			return mkReal(new(big.Rat).Quo(a.rval, b.rval))
		}
		return mkMul(mkReal(new(big.Rat).Inv(b.rval)), a)
	}
	return node("/", sReal, a, b)
}

// mkDiv / mkMod are SMT-LIB integer div/mod (Euclidean).
func mkDiv(a, b *expr) *expr {
	if a.op == "i" && b.op == "i" && b.ival.Sign() != 0 {
		q, _ := new(big.Int).DivMod(a.ival, b.ival, new(big.Int))
		return mkInt(q)
	}
	if isOne(b) {
		return a
	}
	if b.op == "i" && b.ival.Sign() > 0 {
		if lo, hi := a.bounds(); lo != nil && hi != nil && lo.Sign() >= 0 && hi.Cmp(b.ival) < 0 {
			return mkInt64(0)
		}
		// (x * c) div c
		if a.op == "*" && a.args[0].op == "i" && a.args[0].ival.Cmp(b.ival) == 0 {
			return a.args[1]
		}
	}
	return node("div", sInt, a, b)
}

func mkMod(a, b *expr) *expr {
	if a.op == "i" && b.op == "i" && b.ival.Sign() != 0 {
		_, m := new(big.Int).DivMod(a.ival, b.ival, new(big.Int))
		return mkInt(m)
	}
	if b.op == "i" && b.ival.Sign() > 0 {
		if lo, hi := a.bounds(); lo != nil && hi != nil && lo.Sign() >= 0 && hi.Cmp(b.ival) < 0 {
			return a
		}
		if a.op == "*" && a.args[0].op == "i" && new(big.Int).Mod(a.args[0].ival, b.ival).Sign() == 0 {
			return mkInt64(0)
		}
	}
	return node("mod", sInt, a, b)
}

func mkAbs(a *expr) *expr {
	if a.sort == sInt {
		return mkIte(mkGe(a, mkInt64(0)), a, mkNeg(a))
	}
	return mkIte(mkGe(a, mkReal(new(big.Rat))), a, mkNeg(a))
}

// mkToInt is SMT to_int (floor).
func mkToInt(a *expr) *expr {
	if a.sort == sInt {
		return a
	}
	if a.op == "r" {
		n, d := a.rval.Num(), a.rval.Denom()
		q, _ := new(big.Int).DivMod(n, d, new(big.Int))
		return mkInt(q)
	}
	if a.op == "to_real" {
		return a.args[0]
	}
	return node("to_int", sInt, a)
}

func mkIsInt(a *expr) *expr {
	if a.sort == sInt {
		return exTrue
	}
	if a.op == "r" {
		return mkBool(a.rval.IsInt())
	}
	if a.op == "to_real" {
		return exTrue
	}
	return node("is_int", sBool, a)
}

// ---------- comparisons ----------

func cmpConst(a, b *expr) (int, bool) {
	if a.op == "i" && b.op == "i" {
		return a.ival.Cmp(b.ival), true
	}
	if a.op == "r" && b.op == "r" {
		return a.rval.Cmp(b.rval), true
	}
	return 0, false
}

// distribute a comparison over an ite with constant leaves (e.g. big.Float.Cmp results).
func distCmp(f func(a, b *expr) *expr, a, b *expr) (*expr, bool) {
	if a.op == "ite" && b.isConst() && iteConstLeaves(a, 4) {
		return mkIte(a.args[0], f(a.args[1], b), f(a.args[2], b)), true
	}
	if b.op == "ite" && a.isConst() && iteConstLeaves(b, 4) {
		return mkIte(b.args[0], f(a, b.args[1]), f(a, b.args[2])), true
	}
	return nil, false
}

func iteConstLeaves(e *expr, depth int) bool {
	if e.isConst() {
		return true
	}
	if e.op != "ite" || depth == 0 {
		return false
	}
	return iteConstLeaves(e.args[1], depth-1) && iteConstLeaves(e.args[2], depth-1)
}

func mkLt(a, b *expr) *expr {
	a, b = unify(a, b)
	if c, ok := cmpConst(a, b); ok {
		return mkBool(c < 0)
	}
	if a == b {
		return exFalse
	}
	if r, ok := distCmp(mkLt, a, b); ok {
		return r
	}
	if a.sort == sInt {
		if r, ok := boundsCmp(a, b); ok {
			// r: -1 a<b always, 1 a>=b always... encoded below
			if r < 0 {
				return exTrue
			}
			if r > 0 {
				return exFalse
			}
		}
	}
	return node("<", sBool, a, b)
}

// boundsCmp returns -1 if a<b always, +1 if a>=b always (by interval analysis), ok=false if undetermined.
func boundsCmp(a, b *expr) (int, bool) {
	alo, ahi := a.bounds()
	blo, bhi := b.bounds()
	if ahi != nil && blo != nil && ahi.Cmp(blo) < 0 {
		return -1, true
	}
	if alo != nil && bhi != nil && alo.Cmp(bhi) >= 0 {
		return 1, true
	}
	return 0, false
}

func mkLe(a, b *expr) *expr {
	a, b = unify(a, b)
	if c, ok := cmpConst(a, b); ok {
		return mkBool(c <= 0)
	}
	if a == b {
		return exTrue
	}
	if r, ok := distCmp(mkLe, a, b); ok {
		return r
	}
	if a.sort == sInt {
		// a<=b  <=> !(b<a)
		if r, ok := boundsCmp(b, a); ok {
			if r < 0 {
				return exFalse
			}
			if r > 0 {
				return exTrue
			}
		}
	}
	return node("<=", sBool, a, b)
}

func mkGt(a, b *expr) *expr { return mkLt(b, a) }
func mkGe(a, b *expr) *expr { return mkLe(b, a) }

func mkEq(a, b *expr) *expr {
	if a.sort != b.sort && a.sort != sBool && b.sort != sBool {
		a, b = unify(a, b)
	}
	if a == b {
		return exTrue
	}
	if a.sort == sBool {
		if a.op == "b" {
			if a.bval {
				return b
			}
			return mkNot(b)
		}
		if b.op == "b" {
			if b.bval {
				return a
			}
			return mkNot(a)
		}
		return node("=", sBool, a, b)
	}
	if c, ok := cmpConst(a, b); ok {
		return mkBool(c == 0)
	}
	if r, ok := distCmp(mkEq, a, b); ok {
		return r
	}
	if a.sort == sInt {
		alo, ahi := a.bounds()
		blo, bhi := b.bounds()
		if (ahi != nil && blo != nil && ahi.Cmp(blo) < 0) || (alo != nil && bhi != nil && alo.Cmp(bhi) > 0) {
			return exFalse
		}
	}
	return node("=", sBool, a, b)
}

// ---------- interval analysis on Int terms ----------

func minBig(xs ...*big.Int) *big.Int {
	m := xs[0]
	for _, x := range xs[1:] {
		if x.Cmp(m) < 0 {
			m = x
		}
	}
	return m
}
func maxBig(xs ...*big.Int) *big.Int {
	m := xs[0]
	for _, x := range xs[1:] {
		if x.Cmp(m) > 0 {
			m = x
		}
	}
	return m
}

// bounds returns a conservative [lo,hi] for an Int term (nil = unknown on that side).
func (e *expr) bounds() (lo, hi *big.Int) {
	if e.sort != sInt {
		return nil, nil
	}
	if e.bdone {
		return e.lo, e.hi
	}
	lo, hi = e.bounds0()
	e.lo, e.hi, e.bdone = lo, hi, true
	return
}

func (e *expr) bounds0() (lo, hi *big.Int) {
	switch e.op {
	case "i":
		return e.ival, e.ival
	case "var", "uf":
		return e.lo, e.hi
	case "+":
		al, ah := e.args[0].bounds()
		bl, bh := e.args[1].bounds()
		if al != nil && bl != nil {
			lo = new(big.Int).Add(al, bl)
		}
		if ah != nil && bh != nil {
			hi = new(big.Int).Add(ah, bh)
		}
		return
	case "-":
		if len(e.args) == 1 {
			al, ah := e.args[0].bounds()
			if ah != nil {
				lo = new(big.Int).Neg(ah)
			}
			if al != nil {
				hi = new(big.Int).Neg(al)
			}
			return
		}
		al, ah := e.args[0].bounds()
		bl, bh := e.args[1].bounds()
		if al != nil && bh != nil {
			lo = new(big.Int).Sub(al, bh)
		}
		if ah != nil && bl != nil {
			hi = new(big.Int).Sub(ah, bl)
		}
		return
	case "*":
		al, ah := e.args[0].bounds()
		bl, bh := e.args[1].bounds()
		if al != nil && ah != nil && bl != nil && bh != nil {
			p := []*big.Int{new(big.Int).Mul(al, bl), new(big.Int).Mul(al, bh), new(big.Int).Mul(ah, bl), new(big.Int).Mul(ah, bh)}
			return minBig(p...), maxBig(p...)
		}
		return
	case "mod":
		if e.args[1].op == "i" && e.args[1].ival.Sign() > 0 {
			return big.NewInt(0), new(big.Int).Sub(e.args[1].ival, big.NewInt(1))
		}
		return
	case "div":
		if e.args[1].op == "i" && e.args[1].ival.Sign() > 0 {
			al, ah := e.args[0].bounds()
			d := e.args[1].ival
			if al != nil {
				lo, _ = new(big.Int).DivMod(al, d, new(big.Int))
			}
			if ah != nil {
				hi, _ = new(big.Int).DivMod(ah, d, new(big.Int))
			}
		}
		return
	case "ite":
		al, ah := e.args[1].bounds()
		bl, bh := e.args[2].bounds()
		if al != nil && bl != nil {
			lo = minBig(al, bl)
		}
		if ah != nil && bh != nil {
			hi = maxBig(ah, bh)
		}
		return
	}
	return nil, nil
}

// tz returns k such that e is provably a multiple of 2^k (0 if nothing is known).
func (e *expr) tz() int {
	switch e.op {
	case "i":
		if e.ival.Sign() == 0 {
			return 1 << 20
		}
		return int(e.ival.TrailingZeroBits())
	case "*":
		return e.args[0].tz() + e.args[1].tz()
	case "+":
		a, b := e.args[0].tz(), e.args[1].tz()
		if a < b {
			return a
		}
		return b
	case "ite":
		a, b := e.args[1].tz(), e.args[2].tz()
		if a < b {
			return a
		}
		return b
	}
	return 0
}

// ---------- printing ----------

func smtInt(v *big.Int) string {
	if v.Sign() < 0 {
		return "(- " + new(big.Int).Neg(v).String() + ")"
	}
	return v.String()
}

func smtReal(v *big.Rat) string {
	n, d := v.Num(), v.Denom()
	s := ""
	if d.Cmp(big.NewInt(1)) == 0 {
		s = new(big.Int).Abs(n).String() + ".0"
	} else {
		s = "(/ " + new(big.Int).Abs(n).String() + ".0 " + d.String() + ".0)"
	}
	if n.Sign() < 0 {
		return "(- " + s + ")"
	}
	return s
}

func smtName(n string) string { return "|" + n + "|" }

// write prints e; sub-terms present in defs are printed by their definition name.
func (e *expr) write(sb *strings.Builder, defs map[*expr]string) {
	if n, ok := defs[e]; ok {
		sb.WriteString(n)
		return
	}
	e.write0(sb, defs)
}

func (e *expr) write0(sb *strings.Builder, defs map[*expr]string) {
	switch e.op {
	case "b":
		if e.bval {
			sb.WriteString("true")
		} else {
			sb.WriteString("false")
		}
	case "i":
		sb.WriteString(smtInt(e.ival))
	case "r":
		sb.WriteString(smtReal(e.rval))
	case "var":
		sb.WriteString(smtName(e.name))
	case "uf":
		if len(e.args) == 0 {
			sb.WriteString(smtName(e.name))
			return
		}
		sb.WriteString("(" + smtName(e.name))
		for _, a := range e.args {
			sb.WriteByte(' ')
			a.write(sb, defs)
		}
		sb.WriteByte(')')
	case "raw":
		// name holds a format with %d placeholders replaced by args, used for FP terms
		parts := strings.Split(e.name, "@")
		for i, p := range parts {
			sb.WriteString(p)
			if i < len(e.args) {
				e.args[i].write(sb, defs)
			}
		}
	default:
		sb.WriteByte('(')
		sb.WriteString(e.op)
		for _, a := range e.args {
			sb.WriteByte(' ')
			a.write(sb, defs)
		}
		sb.WriteByte(')')
	}
}

func (e *expr) String() string {
	var sb strings.Builder
	e.write(&sb, nil)
	s := sb.String()
	if len(s) > 400 {
		s = s[:400] + "..."
	}
	return s
}

// vars collects the free variables / uf symbols of e.
func (e *expr) walk(seen map[*expr]bool, f func(*expr)) {
	if seen[e] {
		return
	}
	seen[e] = true
	for _, a := range e.args {
		a.walk(seen, f)
	}
	f(e)
}

// ---------- evaluation under a model (used to validate stubs and to skip solver calls) ----------

type model map[string]interface{} // name -> *big.Int | *big.Rat | bool

type evalErr struct{ msg string }

func evalFail(f string, a ...interface{}) { panic(evalErr{fmt.Sprintf(f, a...)}) }

// eval returns bool, *big.Int or *big.Rat. Panics with evalErr when a variable is missing or an op is not evaluable.
func (e *expr) eval(m model) interface{} {
	switch e.op {
	case "b":
		return e.bval
	case "i":
		return e.ival
	case "r":
		return e.rval
	case "var":
		v, ok := m[e.name]
		if !ok {
			evalFail("no value for %s", e.name)
		}
		if e.sort == sReal {
			if i, ok := v.(*big.Int); ok {
				return new(big.Rat).SetInt(i)
			}
		}
		return v
	case "not":
		return !e.args[0].eval(m).(bool)
	case "and":
		return e.args[0].eval(m).(bool) && e.args[1].eval(m).(bool)
	case "or":
		return e.args[0].eval(m).(bool) || e.args[1].eval(m).(bool)
	case "ite":
		if e.args[0].eval(m).(bool) {
			return e.args[1].eval(m)
		}
		return e.args[2].eval(m)
	case "to_real":
		return new(big.Rat).SetInt(e.args[0].eval(m).(*big.Int))
	case "to_int":
		r := e.args[0].eval(m).(*big.Rat)
		q, _ := new(big.Int).DivMod(r.Num(), r.Denom(), new(big.Int))
		return q
	case "is_int":
		return e.args[0].eval(m).(*big.Rat).IsInt()
	case "+", "*", "-", "/", "div", "mod", "<", "<=", "=":
		if e.op == "-" && len(e.args) == 1 {
			switch v := e.args[0].eval(m).(type) {
			case *big.Int:
				return new(big.Int).Neg(v)
			case *big.Rat:
				return new(big.Rat).Neg(v)
			}
		}
		a, b := e.args[0].eval(m), e.args[1].eval(m)
		if ab, ok := a.(bool); ok {
			return ab == b.(bool)
		}
		ai, aok := a.(*big.Int)
		bi, bok := b.(*big.Int)
		if aok && bok {
			switch e.op {
			case "+":
				return new(big.Int).Add(ai, bi)
			case "-":
				return new(big.Int).Sub(ai, bi)
			case "*":
				return new(big.Int).Mul(ai, bi)
			case "div":
				if bi.Sign() == 0 {
					evalFail("div by zero")
				}
				q, _ := new(big.Int).DivMod(ai, bi, new(big.Int))
				return q
			case "mod":
				if bi.Sign() == 0 {
					evalFail("mod by zero")
				}
				_, r := new(big.Int).DivMod(ai, bi, new(big.Int))
				return r
			case "<":
				return ai.Cmp(bi) < 0
			case "<=":
				return ai.Cmp(bi) <= 0
			case "=":
				return ai.Cmp(bi) == 0
			}
		}
		ar, br := ratOf(a), ratOf(b)
		switch e.op {
		case "+":
			return new(big.Rat).Add(ar, br)
		case "-":
			return new(big.Rat).Sub(ar, br)
		case "*":
			return new(big.Rat).Mul(ar, br)
		case "/":
			if br.Sign() == 0 {
				evalFail("real div by zero")
			}
			return new(big.Rat).Quo(ar, br)
		case "<":
			return ar.Cmp(br) < 0
		case "<=":
			return ar.Cmp(br) <= 0
		case "=":
			return ar.Cmp(br) == 0
		}
	}
	evalFail("cannot evaluate op %s", e.op)
	return nil
}

func ratOf(v interface{}) *big.Rat {
	switch v := v.(type) {
	case *big.Int:
		return new(big.Rat).SetInt(v)
	case *big.Rat:
		return v
	}
	evalFail("not numeric: %T", v)
	return nil
}

// tryEval evaluates e under m, reporting ok=false if the model is incomplete for e.
func (e *expr) tryEval(m model) (v interface{}, ok bool) {
	defer func() {
		if r := recover(); r != nil {
			if _, is := r.(evalErr); is {
				ok = false
				return
			}
			panic(r)
		}
	}()
	return e.eval(m), true
}
