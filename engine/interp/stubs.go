package interp

// Stubs for other people's libraries (the trusted base listed in DESIGN.md §2.6).

import (
	"fmt"
	"go/token"
	"go/types"
	"hash/crc32"
	"hash/crc64"
	"math/big"
	"sort"
	"strings"
	"unicode/utf8"

	"github.com/apparentlymart/go-textseg/v15/textseg"
	"golang.org/x/text/unicode/norm"
	"golang.org/x/tools/go/ssa"
)

// callMethod invokes method name on a target value through its dynamic type.
func (i *interpreter) callMethod(fr *frame, recv iface, name string) (value, bool) {
	if recv.t == nil {
		return nil, false
	}
	ms := i.prog.MethodSets.MethodSet(recv.t)
	for k := 0; k < ms.Len(); k++ {
		sel := ms.At(k)
		if sel.Obj().Name() == name {
			fn := i.prog.MethodValue(sel)
			if fn == nil {
				return nil, false
			}
			return call(i, fr, token.NoPos, fn, []value{recv.v}), true
		}
	}
	return nil, false
}

// nativeArg converts a target value (usually boxed in an interface) to a native Go value for formatting.
func (i *interpreter) nativeArg(fr *frame, v value) interface{} {
	if it, ok := v.(iface); ok {
		if it.t == nil {
			return nil
		}
		if types.Implements(it.t, errorIface) {
			if s, ok := i.callMethod(fr, it, "Error"); ok {
				if str, ok := s.(string); ok {
					return fmt.Errorf("%s", str)
				}
				return fmt.Errorf("<symbolic error text>")
			}
		}
		switch x := it.v.(type) {
		case bool, int, int8, int16, int32, int64, uint, uint8, uint16, uint32, uint64, uintptr, float32, float64, string, complex64, complex128:
			if b, ok := it.t.Underlying().(*types.Basic); ok && b.Kind() == types.String {
				// named string types may have String methods; keep plain
				_ = b
			}
			return x
		case sym:
			return "<sym>"
		case symstr:
			return "<symstr>"
		case []value:
			allb := true
			bs := make([]byte, 0, len(x))
			for _, e := range x {
				b, ok := e.(uint8)
				if !ok {
					allb = false
					break
				}
				bs = append(bs, b)
			}
			if allb {
				if sl, ok := it.t.Underlying().(*types.Slice); ok {
					if bb, ok := sl.Elem().Underlying().(*types.Basic); ok && bb.Kind() == types.Uint8 {
						return bs
					}
				}
			}
		}
		if s, ok := i.callMethodIfPure(fr, it, "String"); ok {
			return s
		}
		return opaqueFmt{it.t.String()}
	}
	return opaqueFmt{fmt.Sprintf("%T", v)}
}

type opaqueFmt struct{ t string }

func (o opaqueFmt) Format(f fmt.State, verb rune) { fmt.Fprintf(f, "<%s>", o.t) }

// callMethodIfPure calls a String() method only for go-cty types whose String is cheap and side-effect free.
func (i *interpreter) callMethodIfPure(fr *frame, it iface, name string) (string, bool) {
	n, ok := it.t.(*types.Named)
	if !ok {
		if p, isP := it.t.(*types.Pointer); isP {
			n, ok = p.Elem().(*types.Named)
		}
	}
	if !ok || n.Obj().Pkg() == nil {
		return "", false
	}
	return "", false
}

var errorIface = types.Universe.Lookup("error").Type().Underlying().(*types.Interface)

func (i *interpreter) sprintf(fr *frame, format value, argsv value) string {
	f, ok := format.(string)
	if !ok {
		return "<symbolic format>"
	}
	var nat []interface{}
	if argsv != nil {
		for _, a := range argsv.([]value) {
			nat = append(nat, i.nativeArg(fr, a))
		}
	}
	return fmt.Sprintf(f, nat...)
}

// quoteSym implements %q for strings with symbolic bytes whose ranges are printable ASCII without quote/backslash.
func (i *interpreter) quoteSym(s symstr) (value, bool) {
	out := []value{uint8('"')}
	for _, b := range s {
		switch b := b.(type) {
		case uint8:
			if b < 0x20 || b > 0x7e || b == '"' || b == '\\' {
				return nil, false
			}
			out = append(out, b)
		case sym:
			lo, hi := b.e.bounds()
			if lo == nil || hi == nil || lo.Cmp(big.NewInt(0x20)) < 0 || hi.Cmp(big.NewInt(0x7e)) > 0 {
				return nil, false
			}
			if lo.Cmp(big.NewInt('"')) <= 0 && hi.Cmp(big.NewInt('"')) >= 0 {
				return nil, false
			}
			if lo.Cmp(big.NewInt('\\')) <= 0 && hi.Cmp(big.NewInt('\\')) >= 0 {
				return nil, false
			}
			out = append(out, b)
		}
	}
	out = append(out, uint8('"'))
	return mkStr(out), true
}

func symBytes(bs []value) bool {
	for _, b := range bs {
		if _, ok := b.(sym); ok {
			return true
		}
	}
	return false
}

func nativeBytes(bs []value) []byte {
	out := make([]byte, len(bs))
	for k, b := range bs {
		out[k] = b.(uint8)
	}
	return out
}

func valueBytes(bs []byte) []value {
	out := make([]value, len(bs))
	for k, b := range bs {
		out[k] = b
	}
	return out
}

// ufHash models a hash of a byte sequence with symbolic bytes as an uninterpreted function of the bytes
// (one function symbol per length): equal inputs give equal hashes, nothing else is assumed.
// ufPoint is a concrete evaluation of a hash function on this path; ufApp a symbolic application. The two are tied
// together by instances of the function's graph: (args = bytes) => uf(args) = native value, so that a value hashed
// through the symbolic route and the same value hashed concretely land in the same bucket.
type ufPoint struct {
	bytes []byte
	val   *big.Int
}

func (i *interpreter) ufLink(app *expr, args []*expr, pt ufPoint) {
	cond := exTrue
	for n, a := range args {
		c := mkEq(a, mkInt64(int64(pt.bytes[n])))
		if c.op == "b" && !c.bval {
			return
		}
		cond = mkAnd(cond, c)
	}
	i.ctx.assume(mkImplies(cond, mkEq(app, mkInt(pt.val))))
}

func (i *interpreter) ufHash(name string, bs []value, bits int, k types.BasicKind) value {
	args := make([]*expr, len(bs))
	for n, b := range bs {
		args[n] = exprOf(b)
	}
	key := fmt.Sprintf("%s_%d", name, len(bs))
	e := &expr{op: "uf", sort: sInt, name: key, args: args, size: len(args) + 1}
	e.lo, e.hi, e.bdone = big.NewInt(0), new(big.Int).Sub(pow2(bits), big.NewInt(1)), true
	i.ctx.assume(mkAnd(mkGe(e, mkInt64(0)), mkLe(e, mkInt(e.hi))))
	i.ex.noteAssumption("hash of symbolic bytes is an uninterpreted function (collisions allowed, equal inputs equal, concrete evaluations on the same path pinned to the real checksum)")
	c := i.ctx
	if c.ufApps == nil {
		c.ufApps = map[string][]*expr{}
	}
	for _, pt := range c.ufPoints[key] {
		i.ufLink(e, args, pt)
	}
	c.ufApps[key] = append(c.ufApps[key], e)
	return mkIntVal(k, e)
}

// ufConcrete records a native hash evaluation so that symbolic applications agree with it.
func (i *interpreter) ufConcrete(name string, bs []byte, val uint64) {
	c := i.ctx
	if c == nil {
		return
	}
	key := fmt.Sprintf("%s_%d", name, len(bs))
	for _, p := range c.ufPoints[key] {
		if string(p.bytes) == string(bs) {
			return
		}
	}
	if c.ufPoints == nil {
		c.ufPoints = map[string][]ufPoint{}
	}
	pt := ufPoint{append([]byte(nil), bs...), new(big.Int).SetUint64(val)}
	c.ufPoints[key] = append(c.ufPoints[key], pt)
	for _, app := range c.ufApps[key] {
		i.ufLink(app, app.args, pt)
	}
}

func (i *interpreter) sortValues(fr *frame, xs []value, less func(a, b value) bool) {
	// insertion sort (stable), forking on symbolic comparisons
	for a := 1; a < len(xs); a++ {
		for b := a; b > 0 && less(xs[b], xs[b-1]); b-- {
			xs[b], xs[b-1] = xs[b-1], xs[b]
		}
	}
}

func (i *interpreter) lessValue(a, b value) bool {
	switch c := i.binop(token.LSS, nil, a, b).(type) {
	case bool:
		return c
	case sym:
		return i.branch(c.e)
	}
	panic("lessValue")
}

func (i *interpreter) truth(v value) bool {
	switch c := v.(type) {
	case bool:
		return c
	case sym:
		return i.branch(c.e)
	}
	panic(fmt.Sprintf("truth: %T", v))
}

func init() {
	// remove inherited externals that assume concrete operands; re-add symbolic-aware versions
	for _, k := range []string{"bytes.Equal", "bytes.IndexByte", "fmt.Sprint", "sort.Ints", "sort.Strings", "sort.Float64s",
		"strings.Count", "strings.EqualFold", "strings.Index", "strings.IndexByte", "strings.Replace", "strings.ToLower",
		"strconv.Atoi", "strconv.Itoa", "strconv.FormatFloat", "unicode/utf8.DecodeRuneInString", "os.Exit", "os.Getenv",
		"time.Sleep", "runtime.Goexit"} {
		delete(externals, k)
	}
	for k, v := range map[string]externalFn{
		"fmt.Sprintf": func(fr *frame, args []value) value {
			if f, ok := args[0].(string); ok && f == "%q" {
				if xs := args[1].([]value); len(xs) == 1 {
					if it, ok := xs[0].(iface); ok {
						if ss, ok := it.v.(symstr); ok {
							if r, ok := fr.i.quoteSym(ss); ok {
								return r
							}
							fr.i.abort("unsupported", "%q of symbolic string outside the plain printable range")
						}
					}
				}
			}
			return fr.i.sprintf(fr, args[0], args[1])
		},
		"fmt.Errorf": func(fr *frame, args []value) value {
			return fr.i.makeError(fr.i.sprintf(fr, args[0], args[1]))
		},
		"fmt.Sprint": func(fr *frame, args []value) value {
			var nat []interface{}
			for _, a := range args[0].([]value) {
				nat = append(nat, fr.i.nativeArg(fr, a))
			}
			return fmt.Sprint(nat...)
		},
		"fmt.Sprintln": func(fr *frame, args []value) value {
			var nat []interface{}
			for _, a := range args[0].([]value) {
				nat = append(nat, fr.i.nativeArg(fr, a))
			}
			return fmt.Sprintln(nat...)
		},
		"fmt.Fprintf": func(fr *frame, args []value) value {
			// write the formatted text through the io.Writer
			s := fr.i.sprintf(fr, args[1], args[2])
			w := args[0].(iface)
			ms := fr.i.prog.MethodSets.MethodSet(w.t)
			for k := 0; k < ms.Len(); k++ {
				if ms.At(k).Obj().Name() == "Write" {
					fn := fr.i.prog.MethodValue(ms.At(k))
					r := call(fr.i, fr, token.NoPos, fn, []value{w.v, valueBytes([]byte(s))})
					return r
				}
			}
			return tuple{len(s), iface{}}
		},
		"fmt.Fprint": func(fr *frame, args []value) value {
			return tuple{0, iface{}}
		},
		"fmt.Println": func(fr *frame, args []value) value { return tuple{0, iface{}} },
		"fmt.Printf":  func(fr *frame, args []value) value { return tuple{0, iface{}} },
		"runtime/debug.Stack": func(fr *frame, args []value) value {
			return valueBytes([]byte("<stack>"))
		},
		"os.Getenv": func(fr *frame, args []value) value { return "" },
		"os.Exit": func(fr *frame, args []value) value {
			panic(internalError{"os.Exit called by target"})
		},

		// ---- sort ----
		"sort.Strings": func(fr *frame, args []value) value {
			fr.i.sortValues(fr, args[0].([]value), fr.i.lessValue)
			return nil
		},
		"sort.Ints": func(fr *frame, args []value) value {
			fr.i.sortValues(fr, args[0].([]value), fr.i.lessValue)
			return nil
		},
		"sort.Float64s": func(fr *frame, args []value) value {
			fr.i.sortValues(fr, args[0].([]value), fr.i.lessValue)
			return nil
		},
		"sort.Slice":       sortSliceStub,
		"sort.SliceStable": sortSliceStub,
		"sort.Sort":        sortInterfaceStub,
		"sort.Stable":      sortInterfaceStub,

		// ---- sync (sequential semantics) ----
		"(*sync.Once).Do": func(fr *frame, args []value) value {
			cell := args[0].(*value)
			st := (*cell).(structure)
			// mark done in the first field irrespective of its layout
			if done, ok := st[len(st)-1].(bool); ok && done {
				return nil
			}
			if _, ok := st[len(st)-1].(bool); !ok {
				// layout unknown: use a side table
				if fr.i.onceDone == nil {
					fr.i.onceDone = map[*value]bool{}
				}
				if fr.i.onceDone[cell] {
					return nil
				}
				fr.i.onceDone[cell] = true
				call(fr.i, fr, token.NoPos, args[1], nil)
				return nil
			}
			st[len(st)-1] = true
			call(fr.i, fr, token.NoPos, args[1], nil)
			return nil
		},
		"(*sync.Mutex).Lock":      func(fr *frame, args []value) value { return nil },
		"(*sync.Mutex).Unlock":    func(fr *frame, args []value) value { return nil },
		"(*sync.Mutex).TryLock":   func(fr *frame, args []value) value { return true },
		"(*sync.RWMutex).Lock":    func(fr *frame, args []value) value { return nil },
		"(*sync.RWMutex).Unlock":  func(fr *frame, args []value) value { return nil },
		"(*sync.RWMutex).RLock":   func(fr *frame, args []value) value { return nil },
		"(*sync.RWMutex).RUnlock": func(fr *frame, args []value) value { return nil },
		"(*sync.Pool).Get": func(fr *frame, args []value) value {
			st := (*args[0].(*value)).(structure)
			newf := st[len(st)-1]
			switch f := newf.(type) {
			case *ssa.Function:
				if f == nil {
					return iface{}
				}
			}
			return call(fr.i, fr, token.NoPos, newf, nil)
		},
		"(*sync.Pool).Put": func(fr *frame, args []value) value { return nil },
		"(*sync.Map).Load": func(fr *frame, args []value) value {
			m := fr.i.syncMap(args[0].(*value))
			v, ok := m.lookup(fr.i, args[1])
			if !ok {
				return tuple{iface{}, false}
			}
			return tuple{v, true}
		},
		"(*sync.Map).Store": func(fr *frame, args []value) value {
			fr.i.syncMap(args[0].(*value)).insert(fr.i, args[1], args[2])
			return nil
		},
		"(*sync.Map).LoadOrStore": func(fr *frame, args []value) value {
			m := fr.i.syncMap(args[0].(*value))
			if v, ok := m.lookup(fr.i, args[1]); ok {
				return tuple{v, true}
			}
			m.insert(fr.i, args[1], args[2])
			return tuple{args[2], false}
		},

		// ---- hashing ----
		"hash/crc32.ChecksumIEEE": func(fr *frame, args []value) value {
			bs := args[0].([]value)
			if symBytes(bs) {
				return fr.i.ufHash("crc32", bs, 32, types.Uint32)
			}
			nb := nativeBytes(bs)
			h := crc32.ChecksumIEEE(nb)
			fr.i.ufConcrete("crc32", nb, uint64(h))
			return h
		},
		"hash/crc64.MakeTable": func(fr *frame, args []value) value {
			// tables are opaque: remember the polynomial
			var c value = structure{args[0]}
			return &c
		},
		// unsafe string/byte-slice casts of the msgpack library: plain conversions
		"github.com/vmihailenco/msgpack/v5.bytesToString": func(fr *frame, args []value) value {
			return mkStr(args[0].([]value))
		},
		"github.com/vmihailenco/msgpack/v5.stringToBytes": func(fr *frame, args []value) value {
			return strBytes(args[0])
		},
		// The reflection-driven entry of the msgpack encoder, summarised for values that implement msgpack.Marshaler:
		// the library calls MarshalMsgpack and writes the bytes it returns (vmihailenco/msgpack encode_value.go,
		// marshalValue). Anything else would need real reflection.
		"(*github.com/vmihailenco/msgpack/v5.Encoder).EncodeValue": func(fr *frame, args []value) value {
			i := fr.i
			t, v := rV2T(args[1]).t, rV2V(args[1])
			if t == nil {
				i.abort("unsupported", "msgpack Encoder.EncodeValue of an invalid reflect.Value")
			}
			mset := i.prog.MethodSets.MethodSet(t)
			var sel *types.Selection
			for k := 0; k < mset.Len(); k++ {
				if mset.At(k).Obj().Name() == "MarshalMsgpack" {
					sel = mset.At(k)
				}
			}
			if sel == nil {
				i.abort("unsupported", "msgpack Encoder.EncodeValue of a type without MarshalMsgpack: "+t.String())
			}
			fn := i.prog.MethodValue(sel)
			res := call(i, fr, fr.fn.Pos(), fn, []value{v}).(tuple)
			if e, ok := res[1].(iface); ok && e.t != nil {
				return res[1]
			}
			var write *ssa.Function
			encT := args[0].(*value)
			_ = encT
			if pkg := i.prog.ImportedPackage("github.com/vmihailenco/msgpack/v5"); pkg != nil {
				if et := pkg.Type("Encoder"); et != nil {
					write = i.prog.LookupMethod(types.NewPointer(et.Type()), pkg.Pkg, "write")
				}
			}
			if write == nil {
				i.abort("unsupported", "msgpack Encoder.write not found")
			}
			return call(i, fr, fr.fn.Pos(), write, []value{args[0], res[0]})
		},
		// a crc64 digest accumulates its input; the sum is the checksum of everything written (native on concrete
		// bytes, the uninterpreted function on symbolic ones)
		"(*hash/crc64.digest).Write": func(fr *frame, args []value) value {
			d := args[0].(*value)
			if fr.i.crcAcc == nil {
				fr.i.crcAcc = map[*value][]value{}
			}
			p := args[1].([]value)
			fr.i.crcAcc[d] = append(fr.i.crcAcc[d], p...)
			return tuple{len(p), iface{}}
		},
		"(*hash/crc64.digest).Reset": func(fr *frame, args []value) value {
			delete(fr.i.crcAcc, args[0].(*value))
			return nil
		},
		"(*hash/crc64.digest).Sum64": func(fr *frame, args []value) value {
			bs := fr.i.crcAcc[args[0].(*value)]
			if symBytes(bs) {
				return fr.i.ufHash("crc64", bs, 64, types.Uint64)
			}
			nb := nativeBytes(bs)
			h := crc64.Checksum(nb, crc64.MakeTable(crc64.ISO))
			fr.i.ufConcrete("crc64", nb, h)
			return h
		},
		"hash/crc64.Checksum": func(fr *frame, args []value) value {
			bs := args[0].([]value)
			poly := uint64(crc64.ISO)
			if p, ok := args[1].(*value); ok && p != nil {
				if st, ok := (*p).(structure); ok && len(st) == 1 {
					if pv, ok := st[0].(uint64); ok {
						poly = pv
					}
				}
			}
			if symBytes(bs) {
				return fr.i.ufHash("crc64", bs, 64, types.Uint64)
			}
			nb := nativeBytes(bs)
			h := crc64.Checksum(nb, crc64.MakeTable(poly))
			fr.i.ufConcrete("crc64", nb, h)
			return h
		},

		// ---- unicode normalisation and segmentation ----
		"(golang.org/x/text/unicode/norm.Form).String": func(fr *frame, args []value) value {
			f := norm.Form(asInt64(args[0]))
			switch s := args[1].(type) {
			case string:
				return f.String(s)
			case symstr:
				return fr.i.asciiOnly(s, "norm.Form.String")
			case numtext:
				return s // decimal text of a number: ASCII, already normal
			}
			fr.i.abort("unsupported", fmt.Sprintf("norm.Form.String of %T", args[1]))
			return nil
		},
		"(golang.org/x/text/unicode/norm.Form).Bytes": func(fr *frame, args []value) value {
			f := norm.Form(asInt64(args[0]))
			bs := args[1].([]value)
			if symBytes(bs) {
				fr.i.asciiOnly(symstr(bs), "norm.Form.Bytes")
				return append([]value(nil), bs...)
			}
			return valueBytes(f.Bytes(nativeBytes(bs)))
		},
		"(golang.org/x/text/unicode/norm.Form).IsNormalString": func(fr *frame, args []value) value {
			f := norm.Form(asInt64(args[0]))
			switch s := args[1].(type) {
			case string:
				return f.IsNormalString(s)
			case symstr:
				fr.i.asciiOnly(s, "norm.Form.IsNormalString")
				return true
			case numtext:
				return true
			}
			fr.i.abort("unsupported", fmt.Sprintf("norm.Form.IsNormalString of %T", args[1]))
			return nil
		},
		"(golang.org/x/text/unicode/norm.Form).LastBoundary": func(fr *frame, args []value) value {
			f := norm.Form(asInt64(args[0]))
			bs := args[1].([]value)
			if symBytes(bs) {
				fr.i.abort("unsupported", "norm.LastBoundary on symbolic bytes")
			}
			return f.LastBoundary(nativeBytes(bs))
		},
		"github.com/apparentlymart/go-textseg/v15/textseg.ScanGraphemeClusters": func(fr *frame, args []value) value {
			bs := args[0].([]value)
			if symBytes(bs) {
				fr.i.abort("unsupported", "textseg on symbolic bytes")
			}
			atEOF := args[1].(bool)
			adv, tok, err := textseg.ScanGraphemeClusters(nativeBytes(bs), atEOF)
			var ev value = iface{}
			if err != nil {
				ev = fr.i.goError(err)
			}
			var tv value = []value(nil)
			if tok != nil {
				tv = valueBytes(tok)
			}
			return tuple{adv, tv, ev}
		},
		"github.com/apparentlymart/go-textseg/v15/textseg.ScanUTF8Sequences": func(fr *frame, args []value) value {
			bs := args[0].([]value)
			if symBytes(bs) {
				fr.i.abort("unsupported", "textseg on symbolic bytes")
			}
			adv, tok, err := textseg.ScanUTF8Sequences(nativeBytes(bs), args[1].(bool))
			var ev value = iface{}
			if err != nil {
				ev = fr.i.goError(err)
			}
			var tv value = []value(nil)
			if tok != nil {
				tv = valueBytes(tok)
			}
			return tuple{adv, tv, ev}
		},

		// ---- utf8 ----
		"unicode/utf8.ValidString": func(fr *frame, args []value) value {
			switch s := args[0].(type) {
			case string:
				return utf8.ValidString(s)
			case symstr:
				fr.i.asciiOnly(s, "utf8.ValidString")
				return true
			}
			panic("utf8.ValidString")
		},
		"unicode/utf8.Valid": func(fr *frame, args []value) value {
			bs := args[0].([]value)
			if symBytes(bs) {
				fr.i.asciiOnly(symstr(bs), "utf8.Valid")
				return true
			}
			return utf8.Valid(nativeBytes(bs))
		},
		"unicode/utf8.RuneCountInString": func(fr *frame, args []value) value {
			switch s := args[0].(type) {
			case string:
				return utf8.RuneCountInString(s)
			case symstr:
				fr.i.asciiOnly(s, "utf8.RuneCountInString")
				return len(s)
			}
			panic("utf8.RuneCountInString")
		},
		"unicode/utf8.DecodeRuneInString": func(fr *frame, args []value) value {
			switch s := args[0].(type) {
			case string:
				r, n := utf8.DecodeRuneInString(s)
				return tuple{r, n}
			case symstr:
				if len(s) == 0 {
					return tuple{int32(utf8.RuneError), 0}
				}
				return fr.i.decodeFirst(s[0], []value(s))
			}
			panic("utf8.DecodeRuneInString")
		},
		"unicode/utf8.DecodeRune": func(fr *frame, args []value) value {
			bs := args[0].([]value)
			if len(bs) == 0 {
				return tuple{int32(utf8.RuneError), 0}
			}
			if _, ok := bs[0].(sym); ok || symBytes(bs[:min(len(bs), 4)]) {
				return fr.i.decodeFirst(bs[0], bs)
			}
			r, n := utf8.DecodeRune(nativeBytes(bs[:min(len(bs), 4)]))
			return tuple{r, n}
		},
		"unicode/utf8.DecodeLastRuneInString": func(fr *frame, args []value) value {
			switch s := args[0].(type) {
			case string:
				r, n := utf8.DecodeLastRuneInString(s)
				return tuple{r, n}
			case symstr:
				if len(s) == 0 {
					return tuple{int32(utf8.RuneError), 0}
				}
				fr.i.asciiOnly(s, "utf8.DecodeLastRuneInString")
				last := s[len(s)-1]
				return tuple{fr.i.conv(types.Typ[types.Int32], types.Typ[types.Uint8], last), 1}
			}
			panic("utf8.DecodeLastRuneInString")
		},

		// ---- strings.Builder (its String method uses unsafe) ----
		"(*strings.Builder).String": func(fr *frame, args []value) value {
			st := (*args[0].(*value)).(structure)
			return mkStr(st[1].([]value))
		},
		"(*strings.Builder).Len": func(fr *frame, args []value) value {
			st := (*args[0].(*value)).(structure)
			return len(st[1].([]value))
		},
		"(*strings.Builder).Grow": func(fr *frame, args []value) value {
			// the real method allocates 2*cap+n bytes: model the run-time outcome of absurd sizes, materialise nothing
			n, ok := args[1].(int)
			if !ok {
				return nil
			}
			if n < 0 {
				panic(targetPanic{iface{t: types.Typ[types.String], v: "strings.Builder.Grow: negative count"}})
			}
			if int64(n) > 1<<47 {
				panic(runtimeErr("makeslice: len out of range"))
			}
			if n > 1<<24 {
				fr.i.abort("cut", fmt.Sprintf("allocation of %d bytes not materialised", n))
			}
			return nil
		},
		"(*strings.Builder).Reset": func(fr *frame, args []value) value {
			st := (*args[0].(*value)).(structure)
			st[1] = []value(nil)
			return nil
		},
		"(*strings.Builder).WriteString": func(fr *frame, args []value) value {
			st := (*args[0].(*value)).(structure)
			bs := strBytes(args[1])
			st[1] = append(st[1].([]value), bs...)
			return tuple{len(bs), iface{}}
		},
		"(*strings.Builder).Write": func(fr *frame, args []value) value {
			st := (*args[0].(*value)).(structure)
			bs := args[1].([]value)
			st[1] = append(st[1].([]value), bs...)
			return tuple{len(bs), iface{}}
		},
		"(*strings.Builder).WriteByte": func(fr *frame, args []value) value {
			st := (*args[0].(*value)).(structure)
			st[1] = append(st[1].([]value), args[1])
			return iface{}
		},
		"(*strings.Builder).WriteRune": func(fr *frame, args []value) value {
			st := (*args[0].(*value)).(structure)
			switch r := args[1].(type) {
			case int32:
				bs := valueBytes([]byte(string(r)))
				st[1] = append(st[1].([]value), bs...)
				return tuple{len(bs), iface{}}
			case sym:
				if !fr.i.branch(mkAnd(mkGe(r.e, mkInt64(0)), mkLt(r.e, mkInt64(0x80)))) {
					fr.i.abort("cut", "WriteRune of non-ASCII symbolic rune")
				}
				st[1] = append(st[1].([]value), mkIntVal(types.Uint8, r.e))
				return tuple{1, iface{}}
			}
			panic("WriteRune")
		},

		// ---- bytes / strings leaves implemented in assembly ----
		"bytes.Equal": func(fr *frame, args []value) value {
			return fr.i.strEq(symstr(args[0].([]value)), symstr(args[1].([]value)))
		},
		"bytes.Compare": func(fr *frame, args []value) value {
			a, b := args[0].([]value), args[1].([]value)
			lt, gt := strLess(a, b), strLess(b, a)
			e := mkIte(lt, mkInt64(-1), mkIte(gt, mkInt64(1), mkInt64(0)))
			if e.op != "i" {
				e.lo, e.hi, e.bdone = big.NewInt(-1), big.NewInt(1), true
			}
			return mkIntVal(types.Int, e)
		},
		"strings.Compare": func(fr *frame, args []value) value {
			a, b := strBytes(args[0]), strBytes(args[1])
			lt, gt := strLess(a, b), strLess(b, a)
			e := mkIte(lt, mkInt64(-1), mkIte(gt, mkInt64(1), mkInt64(0)))
			if e.op != "i" {
				e.lo, e.hi, e.bdone = big.NewInt(-1), big.NewInt(1), true
			}
			return mkIntVal(types.Int, e)
		},
		"bytes.IndexByte": func(fr *frame, args []value) value {
			return fr.i.indexByte(args[0].([]value), args[1])
		},
		"strings.IndexByte": func(fr *frame, args []value) value {
			return fr.i.indexByte(strBytes(args[0]), args[1])
		},
		"internal/bytealg.IndexByteString": func(fr *frame, args []value) value {
			return fr.i.indexByte(strBytes(args[0]), args[1])
		},
		"internal/bytealg.IndexByte": func(fr *frame, args []value) value {
			return fr.i.indexByte(args[0].([]value), args[1])
		},
		"internal/bytealg.CountString": func(fr *frame, args []value) value {
			s, ok := args[0].(string)
			c, ok2 := args[1].(uint8)
			if !ok || !ok2 {
				fr.i.abort("unsupported", "bytealg.CountString on symbolic input")
			}
			return strings.Count(s, string([]byte{c}))
		},
		"internal/bytealg.Count": func(fr *frame, args []value) value {
			bs := args[0].([]value)
			c, ok := args[1].(uint8)
			if symBytes(bs) || !ok {
				fr.i.abort("unsupported", "bytealg.Count on symbolic input")
			}
			return strings.Count(string(nativeBytes(bs)), string([]byte{c}))
		},
		"internal/bytealg.IndexString": func(fr *frame, args []value) value {
			a, ok := args[0].(string)
			b, ok2 := args[1].(string)
			if !ok || !ok2 {
				fr.i.abort("unsupported", "bytealg.IndexString on symbolic input")
			}
			return strings.Index(a, b)
		},
		"internal/bytealg.Index": func(fr *frame, args []value) value {
			a, b := args[0].([]value), args[1].([]value)
			if symBytes(a) || symBytes(b) {
				fr.i.abort("unsupported", "bytealg.Index on symbolic input")
			}
			return strings.Index(string(nativeBytes(a)), string(nativeBytes(b)))
		},
		"internal/bytealg.Equal": func(fr *frame, args []value) value {
			return fr.i.strEq(symstr(args[0].([]value)), symstr(args[1].([]value)))
		},
		"internal/bytealg.Compare": func(fr *frame, args []value) value {
			return externals["bytes.Compare"](fr, args)
		},
		"internal/bytealg.MakeNoZero": func(fr *frame, args []value) value {
			n64 := asInt64(args[0])
			if n64 < 0 || n64 > 1<<47 {
				panic(runtimeErr("makeslice: len out of range"))
			}
			if n64 > 1<<24 {
				fr.i.abort("cut", fmt.Sprintf("allocation of %d bytes not materialised", n64))
			}
			n := int(n64)
			out := make([]value, n)
			for k := range out {
				out[k] = uint8(0)
			}
			return out
		},
		"strings.Index": func(fr *frame, args []value) value {
			a, ok := args[0].(string)
			b, ok2 := args[1].(string)
			if !ok || !ok2 {
				fr.i.abort("unsupported", "strings.Index on symbolic input")
			}
			return strings.Index(a, b)
		},
		"strings.ToLower": func(fr *frame, args []value) value {
			a, ok := args[0].(string)
			if !ok {
				return fr.i.asciiCase(args[0], 'A', 'Z', 32, "strings.ToLower")
			}
			return strings.ToLower(a)
		},
		"strings.ToUpper": func(fr *frame, args []value) value {
			a, ok := args[0].(string)
			if !ok {
				return fr.i.asciiCase(args[0], 'a', 'z', -32, "strings.ToUpper")
			}
			return strings.ToUpper(a)
		},
		"strings.EqualFold": func(fr *frame, args []value) value {
			a, ok := args[0].(string)
			b, ok2 := args[1].(string)
			if !ok || !ok2 {
				fr.i.abort("unsupported", "strings.EqualFold on symbolic input")
			}
			return strings.EqualFold(a, b)
		},
		"strings.Replace": func(fr *frame, args []value) value {
			s, ok := args[0].(string)
			o, ok2 := args[1].(string)
			n, ok3 := args[2].(string)
			if !ok || !ok2 || !ok3 {
				fr.i.abort("unsupported", "strings.Replace on symbolic input")
			}
			return strings.Replace(s, o, n, int(asInt64(args[3])))
		},
	} {
		externals[k] = v
	}
}

func (i *interpreter) syncMap(cell *value) *omap {
	if i.syncMaps == nil {
		i.syncMaps = map[*value]*omap{}
	}
	m := i.syncMaps[cell]
	if m == nil {
		m = makeMap(types.NewInterfaceType(nil, nil)).(*omap)
		i.syncMaps[cell] = m
	}
	return m
}

// asciiOnly cuts the path unless every symbolic byte is < 0x80 (then Unicode-level functions are the identity).
func (i *interpreter) asciiOnly(s symstr, what string) value {
	for _, b := range s {
		switch b := b.(type) {
		case sym:
			if !i.branch(mkLt(b.e, mkInt64(0x80))) {
				i.ex.mu.Lock()
				i.ex.St.AbortDetail["non_ascii_cut"]++
				i.ex.mu.Unlock()
				i.abort("cut", "non-ASCII symbolic byte reaches "+what)
			}
		case uint8:
			if b >= 0x80 {
				i.abort("cut", "non-ASCII byte next to symbolic bytes reaches "+what)
			}
		}
	}
	return s
}

func (i *interpreter) decodeFirst(b0 value, all []value) value {
	switch b := b0.(type) {
	case sym:
		if !i.branch(mkLt(b.e, mkInt64(0x80))) {
			i.abort("cut", "non-ASCII symbolic byte in utf8 decoding")
		}
		return tuple{mkIntVal(types.Int32, b.e), 1}
	case uint8:
		if b < 0x80 {
			return tuple{int32(b), 1}
		}
		n := min(len(all), 4)
		if symBytes(all[:n]) {
			i.abort("cut", "multi-byte utf8 sequence with symbolic continuation bytes")
		}
		r, sz := utf8.DecodeRune(nativeBytes(all[:n]))
		return tuple{r, sz}
	}
	panic("decodeFirst")
}

func (i *interpreter) indexByte(bs []value, c value) value {
	for k, b := range bs {
		switch eq := i.equals(types.Typ[types.Uint8], b, c).(type) {
		case bool:
			if eq {
				return k
			}
		case sym:
			if i.branch(eq.e) {
				return k
			}
		}
	}
	return -1
}

func sortSliceStub(fr *frame, args []value) value {
	i := fr.i
	it := args[0].(iface)
	xs, ok := it.v.([]value)
	if !ok {
		panic(targetPanic{iface{types.Typ[types.String], "sort.Slice: not a slice"}})
	}
	less := args[1]
	// insertion sort calling less(i,j) and swapping elements in place (what reflect.Swapper does)
	for a := 1; a < len(xs); a++ {
		for b := a; b > 0; b-- {
			r := call(i, fr, token.NoPos, less, []value{b, b - 1})
			if !i.truth(r) {
				break
			}
			xs[b], xs[b-1] = xs[b-1], xs[b]
		}
	}
	return nil
}

func sortInterfaceStub(fr *frame, args []value) value {
	i := fr.i
	it := args[0].(iface)
	get := func(name string) *ssa.Function {
		ms := i.prog.MethodSets.MethodSet(it.t)
		for k := 0; k < ms.Len(); k++ {
			if ms.At(k).Obj().Name() == name {
				return i.prog.MethodValue(ms.At(k))
			}
		}
		panic(internalError{"sort.Sort: no method " + name})
	}
	lenF, lessF, swapF := get("Len"), get("Less"), get("Swap")
	n := int(asInt64(call(i, fr, token.NoPos, lenF, []value{it.v})))
	for a := 1; a < n; a++ {
		for b := a; b > 0; b-- {
			r := call(i, fr, token.NoPos, lessF, []value{it.v, b, b - 1})
			if !i.truth(r) {
				break
			}
			call(i, fr, token.NoPos, swapF, []value{it.v, b, b - 1})
		}
	}
	return nil
}

var _ = sort.Strings

func (i *interpreter) unwrapErr(fr *frame, e iface) (iface, bool) {
	if e.t == nil {
		return iface{}, false
	}
	r, ok := i.callMethod(fr, e, "Unwrap")
	if !ok {
		return iface{}, false
	}
	if u, ok := r.(iface); ok && u.t != nil {
		return u, true
	}
	return iface{}, false
}

func init() {
	externals["errors.As"] = func(fr *frame, args []value) value {
		i := fr.i
		err := args[0].(iface)
		target := args[1].(iface)
		if target.t == nil {
			panic(targetPanic{iface{types.Typ[types.String], "errors: target cannot be nil"}})
		}
		pt, ok := target.t.Underlying().(*types.Pointer)
		if !ok || target.v.(*value) == nil {
			panic(targetPanic{iface{types.Typ[types.String], "errors: target must be a non-nil pointer"}})
		}
		T := pt.Elem()
		cell := target.v.(*value)
		for n := 0; err.t != nil && n < 100; n++ {
			if it, isI := T.Underlying().(*types.Interface); isI {
				if types.Implements(err.t, it) {
					*cell = err
					return true
				}
			} else if types.Identical(err.t, T) {
				store(T, cell, err.v)
				return true
			}
			next, ok := i.unwrapErr(fr, err)
			if !ok {
				break
			}
			err = next
		}
		return false
	}
	externals["errors.Is"] = func(fr *frame, args []value) value {
		i := fr.i
		err := args[0].(iface)
		target := args[1].(iface)
		if err.t == nil || target.t == nil {
			return err.t == nil && target.t == nil
		}
		for n := 0; err.t != nil && n < 100; n++ {
			if types.Comparable(target.t) && sameType(err.t, target.t) {
				if i.truth(i.equals(err.t, err.v, target.v)) {
					return true
				}
			}
			next, ok := i.unwrapErr(fr, err)
			if !ok {
				break
			}
			err = next
		}
		return false
	}
	externals["errors.Unwrap"] = func(fr *frame, args []value) value {
		u, ok := fr.i.unwrapErr(fr, args[0].(iface))
		if !ok {
			return iface{}
		}
		return u
	}
}

// asciiCase maps the bytes of a symbolic string that lie in [lo,hi] by delta; exact for ASCII strings, so every
// symbolic byte must be provably below 0x80 on this path (otherwise the path is not decided).
func (i *interpreter) asciiCase(v value, lo, hi byte, delta int64, what string) value {
	bs := strBytes(v)
	out := make([]value, len(bs))
	for k, b := range bs {
		if c, ok := b.(uint8); ok {
			if c >= 0x80 {
				i.abort("unsupported", what+" on a non-ASCII string with symbolic bytes")
			}
			if c >= lo && c <= hi {
				c = byte(int64(c) + delta)
			}
			out[k] = c
			continue
		}
		e := exprOf(b)
		if i.ctx.checkSat(mkGe(e, mkInt(big.NewInt(0x80)))) != resUnsat {
			i.abort("unsupported", what+" on symbolic input that may be non-ASCII")
		}
		in := mkAnd(mkGe(e, mkInt(big.NewInt(int64(lo)))), mkLe(e, mkInt(big.NewInt(int64(hi)))))
		out[k] = mkIntVal(types.Uint8, mkIte(in, mkAdd(e, mkInt(big.NewInt(delta))), e))
	}
	return mkStr(out)
}
