package interp

// Model of math/big.Float and math/big.Int.
//
// A big.Float object is one interpreter cell holding a bigF. Concrete objects hold a real *big.Float and every
// method is executed by the real library. Symbolic objects hold an exact real term (finite values only; infinities
// are always concrete). Symbolic values are fixed-point: val = num / 2^scale with num an Int term, which lets the
// model decide whether an operation at a given precision is exact (see roundTo).

import (
	"fmt"
	"go/types"
	"math"
	"math/big"
)

type bigF struct {
	nat   *big.Float // concrete value (never mutated after creation)
	sv    *expr      // Real term (when nat == nil)
	num   *expr      // Int term with sv = num/2^scale, or nil when the value is not known to be fixed-point
	scale int
	bits  int  // |num| < 2^bits
	prec  uint // precision of the symbolic object (0 = unset)
	mp    *expr
	// quotient form of a non fixed-point value: sv = qn/qd with integer terms (qd != 0 on the path)
	qn, qd *expr
}

type bigI struct {
	nat *big.Int
	sv  *expr // Int term
}

func zeroModelled(t *types.Named) (value, bool) {
	obj := t.Obj()
	if obj.Pkg() != nil && obj.Pkg().Path() == "math/big" {
		switch obj.Name() {
		case "Float":
			return bigF{nat: new(big.Float)}, true
		case "Int":
			return bigI{nat: new(big.Int)}, true
		}
	}
	return nil, false
}

func (i *interpreter) getF(p value) bigF {
	pp, ok := p.(*value)
	if !ok {
		panic(fmt.Sprintf("getF: %T", p))
	}
	if pp == nil {
		panic(runtimeErr("invalid memory address or nil pointer dereference"))
	}
	f, ok := (*pp).(bigF)
	if !ok {
		i.abort("unsupported", fmt.Sprintf("big.Float cell holds %T", *pp))
	}
	return f
}

func (i *interpreter) getI(p value) bigI {
	pp := p.(*value)
	if pp == nil {
		panic(runtimeErr("invalid memory address or nil pointer dereference"))
	}
	f, ok := (*pp).(bigI)
	if !ok {
		i.abort("unsupported", fmt.Sprintf("big.Int cell holds %T", *pp))
	}
	return f
}

func setCell(p value, v value) value {
	*(p.(*value)) = v
	return p
}

func (f bigF) isSym() bool { return f.nat == nil }
func (f bigF) isInf() bool { return f.nat != nil && f.nat.IsInf() }

func (f bigF) getPrec() uint {
	if f.nat != nil {
		return f.nat.Prec()
	}
	return f.prec
}

// real returns the exact real term of a finite value.
func (f bigF) real() *expr {
	if f.nat != nil {
		r, _ := f.nat.Rat(nil)
		return mkReal(r)
	}
	return f.sv
}

// fixed returns num, scale, bits for finite values (ok=false when not fixed-point).
func (f bigF) fixed() (num *expr, scale, bits int, ok bool) {
	if f.nat != nil {
		if f.nat.Sign() == 0 {
			return mkInt64(0), 0, 0, true
		}
		mant := new(big.Float)
		exp := f.nat.MantExp(mant) // f = mant * 2^exp, 0.5 <= |mant| < 1
		mp := int(f.nat.MinPrec())
		// integer numerator n = mant * 2^mp ; f = n * 2^(exp-mp)
		n := new(big.Float).SetMantExp(mant, mp)
		ni, acc := n.Int(nil)
		if acc != big.Exact {
			return nil, 0, 0, false
		}
		sh := exp - mp
		if sh >= 0 {
			ni.Lsh(ni, uint(sh))
			return mkInt(ni), 0, ni.BitLen(), true
		}
		return mkInt(ni), -sh, ni.BitLen(), true
	}
	if f.num == nil {
		return nil, 0, 0, false
	}
	return f.num, f.scale, f.bits, true
}

func symF(sv, num *expr, scale, bits int, prec uint) bigF {
	if num != nil {
		if lo, hi := num.bounds(); lo != nil && hi != nil {
			b := maxBig(new(big.Int).Abs(lo), new(big.Int).Abs(hi)).BitLen()
			if b < bits {
				bits = b
			}
		}
		if num.op == "i" {
			// concrete after all
			r := new(big.Rat).SetFrac(num.ival, pow2(scale))
			nf := new(big.Float).SetPrec(prec)
			if prec == 0 {
				nf.SetPrec(64)
			}
			p2 := uint(num.ival.BitLen())
			if p2 > nf.Prec() {
				nf.SetPrec(p2)
			}
			nf.SetRat(r)
			if prec != 0 {
				// represent exactly at the requested precision if possible
				t := new(big.Float).SetPrec(prec).Set(nf)
				if t.Cmp(nf) == 0 {
					nf = t
				}
			}
			return bigF{nat: nf}
		}
	}
	return bigF{sv: sv, num: num, scale: scale, bits: bits, prec: prec}
}

func fromFixed(num *expr, scale, bits int, prec uint) bigF {
	return symF(mkRDiv(toRealE(num), mkReal(new(big.Rat).SetInt(pow2(scale)))), num, scale, bits, prec)
}

// roundTo models rounding of the exact finite symbolic value f to precision p.
// It returns f unchanged when the operation is provably exact; when it is provably inexact it returns a value
// constrained to differ from the exact one (so the inexactness is visible to assertions); otherwise the path is cut.
func (i *interpreter) roundTo(f bigF, p uint) bigF {
	f.prec = p
	if f.nat != nil {
		panic("roundTo on concrete")
	}
	if f.num == nil {
		i.ex.noteAssumption("non fixed-point symbolic numbers (results of inexact division) are treated as exact reals")
		return f
	}
	if f.bits <= int(p) {
		return f
	}
	lim := mkInt(pow2(int(p)))
	if i.branch(mkLt(mkAbs(f.num), lim)) {
		return f
	}
	if i.branch(mkEq(mkMod(f.num, mkInt64(2)), mkInt64(1))) {
		// odd numerator with more than p bits: certainly rounded
		r := i.ctx.newInternal("rounded", sReal)
		ex := f.sv
		i.ctx.assume(mkNot(mkEq(r, ex)))
		// relative error at most 2^-(p-1)
		eps := mkReal(new(big.Rat).SetFrac(big.NewInt(1), pow2(int(p)-1)))
		bound := mkMul(eps, mkAbs(ex))
		i.ctx.assume(mkLe(mkAbs(mkSub(r, ex)), bound))
		i.ex.noteRounded()
		return bigF{sv: r, prec: p}
	}
	i.abort("cut", "rounding of an even wide mantissa is not modelled")
	return f
}

func natF(f *big.Float) bigF { return bigF{nat: f} }

func targetPrec(z bigF, xs ...bigF) uint {
	p := z.getPrec()
	if p == 0 {
		for _, x := range xs {
			if xp := x.getPrec(); xp > p {
				p = xp
			}
		}
	}
	return p
}

func errNaN(i *interpreter, msg string) {
	// panic(big.ErrNaN{msg}) in the target program
	pkg := i.prog.ImportedPackage("math/big")
	t := pkg.Type("ErrNaN").Type()
	panic(targetPanic{iface{t: t, v: structure{msg}}})
}

// signOf forks on the sign of a symbolic finite value: -1, 0, +1.
func (i *interpreter) signOf(f bigF) int {
	if f.nat != nil {
		return f.nat.Sign()
	}
	so := signOperand(f)
	var zero *expr = mkInt64(0)
	if so.sort == sReal {
		zero = mkReal(new(big.Rat))
	}
	if i.branch(mkEq(so, zero)) {
		return 0
	}
	if i.branch(mkLt(so, zero)) {
		return -1
	}
	return 1
}

func infF(sign int) bigF { return natF(new(big.Float).SetInf(sign < 0)) }

func (i *interpreter) bigAddSub(z, x, y bigF, sub bool) bigF {
	if x.nat != nil && y.nat != nil {
		r := new(big.Float).SetPrec(z.getPrec())
		if z.nat != nil {
			r.SetMode(z.nat.Mode())
		}
		func() {
			defer func() {
				if e := recover(); e != nil {
					if en, ok := e.(big.ErrNaN); ok {
						errNaN(i, en.Error())
					}
					panic(e)
				}
			}()
			if sub {
				r.Sub(x.nat, y.nat)
			} else {
				r.Add(x.nat, y.nat)
			}
		}()
		return natF(r)
	}
	p := targetPrec(z, x, y)
	if x.isInf() || y.isInf() {
		// one is infinite, the other symbolic finite
		if x.isInf() {
			return bigF{nat: new(big.Float).SetPrec(p).Set(x.nat)}
		}
		s := y.nat.Sign()
		if sub {
			s = -s
		}
		return bigF{nat: new(big.Float).SetPrec(p).SetInf(s < 0)}
	}
	xr, yr := x.real(), y.real()
	var sv *expr
	if sub {
		sv = mkSub(xr, yr)
	} else {
		sv = mkAdd(xr, yr)
	}
	xn, xs, xb, ok1 := x.fixed()
	yn, ys, yb, ok2 := y.fixed()
	if !ok1 || !ok2 {
		return i.roundTo(bigF{sv: sv}, p)
	}
	s := xs
	if ys > s {
		s = ys
	}
	xa := mkMul(mkInt(pow2(s-xs)), xn)
	ya := mkMul(mkInt(pow2(s-ys)), yn)
	bits := xb + (s - xs)
	if yb+(s-ys) > bits {
		bits = yb + (s - ys)
	}
	bits++
	var num *expr
	if sub {
		num = mkSub(xa, ya)
	} else {
		num = mkAdd(xa, ya)
	}
	r := symF(sv, num, s, bits, p)
	if r.nat != nil {
		return r
	}
	return i.roundTo(r, p)
}

func (i *interpreter) bigMul(z, x, y bigF) bigF {
	if x.nat != nil && y.nat != nil {
		r := new(big.Float).SetPrec(z.getPrec())
		func() {
			defer func() {
				if e := recover(); e != nil {
					if en, ok := e.(big.ErrNaN); ok {
						errNaN(i, en.Error())
					}
					panic(e)
				}
			}()
			r.Mul(x.nat, y.nat)
		}()
		return natF(r)
	}
	p := targetPrec(z, x, y)
	if x.isInf() || y.isInf() {
		inf, fin := x, y
		if y.isInf() {
			inf, fin = y, x
		}
		s := i.signOf(fin)
		if s == 0 {
			errNaN(i, "multiplication of zero with infinity")
		}
		return bigF{nat: new(big.Float).SetPrec(p).SetInf(s*inf.nat.Sign() < 0)}
	}
	// a concrete zero operand gives an exact zero (sign ignored: -0 is outside the model)
	sv := mkMul(x.real(), y.real())
	xn, xs, xb, ok1 := x.fixed()
	yn, ys, yb, ok2 := y.fixed()
	if !ok1 || !ok2 {
		return i.roundTo(bigF{sv: sv}, p)
	}
	r := symF(sv, mkMul(xn, yn), xs+ys, xb+yb, p)
	if r.nat != nil {
		return r
	}
	return i.roundTo(r, p)
}

func (i *interpreter) bigQuo(z, x, y bigF) bigF {
	if x.nat != nil && y.nat != nil {
		r := new(big.Float).SetPrec(z.getPrec())
		func() {
			defer func() {
				if e := recover(); e != nil {
					if en, ok := e.(big.ErrNaN); ok {
						errNaN(i, en.Error())
					}
					panic(e)
				}
			}()
			r.Quo(x.nat, y.nat)
		}()
		return natF(r)
	}
	p := targetPrec(z, x, y)
	if x.isInf() && y.isInf() {
		errNaN(i, "division of infinities")
	}
	if x.isInf() {
		s := i.signOf(y)
		if s == 0 {
			s = 1 // x/±0 with x infinite: sign of +0 (negative zero outside the model)
		}
		return bigF{nat: new(big.Float).SetPrec(p).SetInf(s*x.nat.Sign() < 0)}
	}
	if y.isInf() {
		return bigF{nat: new(big.Float).SetPrec(p)} // finite / inf = 0
	}
	ys := i.signOf(y)
	if ys == 0 {
		xs := i.signOf(x)
		if xs == 0 {
			errNaN(i, "division of zero by zero")
		}
		return bigF{nat: new(big.Float).SetPrec(p).SetInf(xs < 0)}
	}
	sv := mkRDiv(x.real(), y.real())
	// division by a concrete power of two keeps the fixed-point form
	if y.nat != nil {
		if xn, xsc, xb, ok := x.fixed(); ok {
			mant := new(big.Float)
			exp := y.nat.MantExp(mant)
			if mant.Cmp(big.NewFloat(0.5)) == 0 { // y = 2^(exp-1)
				sh := exp - 1
				if sh >= 0 {
					return i.roundTo(symF(sv, xn, xsc+sh, xb, p), p)
				}
				return i.roundTo(symF(sv, mkMul(mkInt(pow2(-sh)), xn), xsc, xb-sh, p), p)
			}
		}
	}
	res := bigF{sv: sv}
	// remember an integer quotient form when both operands are fixed-point
	if xn, xsc, _, ok1 := x.fixed(); ok1 {
		if yn, ysc, _, ok2 := y.fixed(); ok2 {
			// (xn/2^xsc) / (yn/2^ysc) = (xn*2^ysc) / (yn*2^xsc)
			res.qn = mkMul(mkInt(pow2(ysc)), xn)
			res.qd = mkMul(mkInt(pow2(xsc)), yn)
		}
	}
	return i.roundTo(res, p)
}

// bigCmp returns the term / constant for x.Cmp(y).
func (i *interpreter) bigCmp(x, y bigF) value {
	if x.nat != nil && y.nat != nil {
		return x.nat.Cmp(y.nat)
	}
	if x.isInf() {
		return x.nat.Sign()
	}
	if y.isInf() {
		return -y.nat.Sign()
	}
	xr, yr := cmpOperands(x, y)
	e := mkIte(mkLt(xr, yr), mkInt64(-1), mkIte(mkGt(xr, yr), mkInt64(1), mkInt64(0)))
	if e.op != "i" {
		e.lo, e.hi, e.bdone = big.NewInt(-1), big.NewInt(1), true
	}
	return mkIntVal(types.Int, e)
}

// cmpOperands returns terms whose order is the order of x and y: aligned integer numerators when both values
// are fixed-point (pure integer arithmetic for the solver), the exact reals otherwise.
func cmpOperands(x, y bigF) (*expr, *expr) {
	xn, xs, _, ok1 := x.fixed()
	yn, ys, _, ok2 := y.fixed()
	if ok1 && ok2 {
		s := xs
		if ys > s {
			s = ys
		}
		return mkMul(mkInt(pow2(s-xs)), xn), mkMul(mkInt(pow2(s-ys)), yn)
	}
	return x.real(), y.real()
}

// signTerm returns a term with the sign of x (integer numerator when fixed-point).
func signOperand(x bigF) *expr {
	if n, _, _, ok := x.fixed(); ok {
		return n
	}
	return x.real()
}

func accValue(k int) value { return int8(k) } // big.Accuracy is int8: Below=-1 Exact=0 Above=+1

// truncInt returns the term for trunc(x) and the accuracy term for a finite symbolic x.
func truncTermsF(x bigF) (tr *expr, acc *expr) {
	if n, sc, _, ok := x.fixed(); ok {
		if sc == 0 {
			return n, mkInt64(0)
		}
		d := mkInt(pow2(sc))
		zero := mkInt64(0)
		tr = mkIte(mkGe(n, zero), mkDiv(n, d), mkNeg(mkDiv(mkNeg(n), d)))
		acc = mkIte(mkEq(mkMod(n, d), zero), mkInt64(0), mkIte(mkGt(n, zero), mkInt64(-1), mkInt64(1)))
		return
	}
	if x.qn != nil {
		// truncation of an integer quotient in integer arithmetic
		tr = tdiv(x.qn, x.qd)
		acc = mkIte(mkEq(trem(x.qn, x.qd), mkInt64(0)), mkInt64(0), mkIte(mkEq(mkLt(x.qn, mkInt64(0)), mkLt(x.qd, mkInt64(0))), mkInt64(-1), mkInt64(1)))
		return
	}
	return truncTerms(x.sv)
}

func truncTerms(sv *expr) (tr *expr, acc *expr) {
	zero := mkReal(new(big.Rat))
	fl := mkToInt(sv)
	isI := mkIsInt(sv)
	// trunc toward zero: floor for x>=0, ceil = -floor(-x) for x<0
	tr = mkIte(mkGe(sv, zero), fl, mkNeg(mkToInt(mkNeg(sv))))
	// accuracy: Exact if integer; Below if result < x (x>0); Above if result > x (x<0)
	acc = mkIte(isI, mkInt64(0), mkIte(mkGt(sv, zero), mkInt64(-1), mkInt64(1)))
	return
}

func init() {
	for k, v := range map[string]externalFn{
		"math/big.NewFloat": func(fr *frame, args []value) value {
			x, ok := args[0].(float64)
			if !ok {
				fr.i.abort("unsupported", "big.NewFloat of symbolic float")
			}
			if math.IsNaN(x) {
				errNaN(fr.i, "NewFloat(NaN)")
			}
			var c value = natF(big.NewFloat(x))
			return &c
		},
		"math/big.NewInt": func(fr *frame, args []value) value {
			var c value
			if s, ok := args[0].(sym); ok {
				c = bigI{sv: s.e}
			} else {
				c = bigI{nat: big.NewInt(args[0].(int64))}
			}
			return &c
		},
		"(*math/big.Float).SetPrec": func(fr *frame, args []value) value {
			i := fr.i
			z := i.getF(args[0])
			var p uint
			if sp, ok := args[1].(sym); ok {
				// symbolic precision: only the value's own MinPrec (or max(const, MinPrec)) is understood
				if z.nat == nil && z.mp != nil && exprMentions(sp.e, z.mp) {
					z.prec = 0 // unknown but sufficient precision
					z.prec = uint(z.bits)
					if z.prec < 64 {
						z.prec = 64
					}
					return setCell(args[0], z)
				}
				p = uint(i.concretize(sp.e, 0, 1024))
			} else {
				p = args[1].(uint)
			}
			if z.nat != nil {
				r := new(big.Float).Copy(z.nat)
				r.SetPrec(p)
				return setCell(args[0], natF(r))
			}
			if p == 0 {
				i.abort("unsupported", "SetPrec(0) on symbolic number")
			}
			return setCell(args[0], i.roundTo(z, p))
		},
		"(*math/big.Float).SetMode": func(fr *frame, args []value) value {
			i := fr.i
			z := i.getF(args[0])
			if z.nat == nil {
				i.abort("unsupported", "SetMode on symbolic number")
			}
			r := new(big.Float).Copy(z.nat)
			r.SetMode(big.RoundingMode(args[1].(uint8)))
			return setCell(args[0], natF(r))
		},
		"(*math/big.Float).Prec": func(fr *frame, args []value) value {
			return fr.i.getF(args[0]).getPrec()
		},
		"(*math/big.Float).MinPrec": func(fr *frame, args []value) value {
			i := fr.i
			z := i.getF(args[0])
			if z.nat != nil {
				return z.nat.MinPrec()
			}
			if z.num == nil {
				i.abort("unsupported", "MinPrec of non fixed-point symbolic number")
			}
			if z.mp == nil {
				mp := i.ctx.newInternal("minprec", sInt)
				mp.lo, mp.hi, mp.bdone = big.NewInt(0), big.NewInt(int64(z.bits)), true
				i.ctx.assume(mkAnd(mkGe(mp, mkInt64(0)), mkLe(mp, mkInt64(int64(z.bits)))))
				an := mkAbs(z.num)
				odd := mkEq(mkMod(z.num, mkInt64(2)), mkInt64(1))
				for _, t := range []int{24, 53, 64, 128} {
					if t >= z.bits {
						continue
					}
					lim := mkInt(pow2(t))
					i.ctx.assume(mkImplies(mkLt(an, lim), mkLe(mp, mkInt64(int64(t)))))
					i.ctx.assume(mkImplies(mkAnd(odd, mkGe(an, lim)), mkGt(mp, mkInt64(int64(t)))))
				}
				z.mp = mp
				setCell(args[0], z)
			}
			return mkIntVal(types.Uint, z.mp)
		},
		"(*math/big.Float).MantExp": func(fr *frame, args []value) value {
			// exponent e with 0.5 <= |x|/2^e < 1 (0 for zero and infinities); only MantExp(nil) is modelled on symbolic
			// values: the exponent is found by forking over the feasible binades, highest first
			i := fr.i
			z := i.getF(args[0])
			mantNil := false
			if p, ok := args[1].(*value); ok && p == nil {
				mantNil = true
			}
			if z.nat != nil {
				if mantNil {
					return z.nat.MantExp(nil)
				}
				m := i.getF(args[1])
				if m.nat == nil {
					i.abort("unsupported", "MantExp into a symbolic number")
				}
				mant := new(big.Float).Copy(m.nat)
				e := z.nat.MantExp(mant)
				setCell(args[1], natF(mant))
				return e
			}
			if !mantNil || z.num == nil {
				i.abort("unsupported", "MantExp of a symbolic number with a mantissa target or without fixed-point form")
			}
			an := mkAbs(z.num)
			for b := z.bits; b >= 1; b-- {
				// |num| >= 2^(b-1)  <=>  the numerator has (at least) b bits: exponent b - scale
				if i.branch(mkGe(an, mkInt(pow2(b-1)))) {
					return b - z.scale
				}
			}
			return 0
		},
		"(*math/big.Float).Mode": func(fr *frame, args []value) value {
			z := fr.i.getF(args[0])
			if z.nat != nil {
				return uint8(z.nat.Mode())
			}
			return uint8(0)
		},
		"(*math/big.Float).Sign": func(fr *frame, args []value) value {
			i := fr.i
			z := i.getF(args[0])
			if z.nat != nil {
				return z.nat.Sign()
			}
			so := signOperand(z)
			var zero *expr = mkInt64(0)
			if so.sort == sReal {
				zero = mkReal(new(big.Rat))
			}
			e := mkIte(mkLt(so, zero), mkInt64(-1), mkIte(mkGt(so, zero), mkInt64(1), mkInt64(0)))
			if e.op != "i" {
				e.lo, e.hi, e.bdone = big.NewInt(-1), big.NewInt(1), true
			}
			return mkIntVal(types.Int, e)
		},
		"(*math/big.Float).Signbit": func(fr *frame, args []value) value {
			i := fr.i
			z := i.getF(args[0])
			if z.nat != nil {
				return z.nat.Signbit()
			}
			i.ex.noteAssumption("negative zero is outside the symbolic number model (Signbit = value < 0)")
			so := signOperand(z)
			if so.sort == sInt {
				return mkBoolVal(mkLt(so, mkInt64(0)))
			}
			return mkBoolVal(mkLt(z.sv, mkReal(new(big.Rat))))
		},
		"(*math/big.Float).IsInf": func(fr *frame, args []value) value {
			z := fr.i.getF(args[0])
			if z.nat != nil {
				return z.nat.IsInf()
			}
			return false
		},
		"(*math/big.Float).IsInt": func(fr *frame, args []value) value {
			z := fr.i.getF(args[0])
			if z.nat != nil {
				return z.nat.IsInt()
			}
			if z.num != nil && z.scale == 0 {
				return true
			}
			if z.num != nil {
				return mkBoolVal(mkEq(mkMod(z.num, mkInt(pow2(z.scale))), mkInt64(0)))
			}
			return mkBoolVal(mkIsInt(z.sv))
		},
		"(*math/big.Float).Set": func(fr *frame, args []value) value {
			i := fr.i
			z, x := i.getF(args[0]), i.getF(args[1])
			if args[0].(*value) == args[1].(*value) {
				return args[0]
			}
			if x.nat != nil {
				r := new(big.Float).SetPrec(z.getPrec())
				if z.nat != nil {
					r.SetMode(z.nat.Mode())
				}
				r.Set(x.nat)
				return setCell(args[0], natF(r))
			}
			p := z.getPrec()
			if p == 0 {
				p = x.prec
			}
			if p >= x.prec {
				x.prec = p
				return setCell(args[0], x)
			}
			return setCell(args[0], i.roundTo(x, p))
		},
		"(*math/big.Float).Copy": func(fr *frame, args []value) value {
			i := fr.i
			_ = i.getF(args[0])
			x := i.getF(args[1])
			if x.nat != nil {
				return setCell(args[0], natF(new(big.Float).Copy(x.nat)))
			}
			return setCell(args[0], x)
		},
		"(*math/big.Float).SetInf": func(fr *frame, args []value) value {
			z := fr.i.getF(args[0])
			r := new(big.Float).SetPrec(z.getPrec())
			sb, ok := args[1].(bool)
			if !ok {
				sb = fr.i.branch(args[1].(sym).e)
			}
			r.SetInf(sb)
			return setCell(args[0], natF(r))
		},
		"(*math/big.Float).SetInt64": func(fr *frame, args []value) value {
			i := fr.i
			z := i.getF(args[0])
			if s, ok := args[1].(sym); ok {
				p := z.getPrec()
				if p == 0 {
					p = 64
				}
				r := fromFixed(s.e, 0, 64, p)
				if r.nat == nil && p < 64 {
					r = i.roundTo(r, p)
				}
				return setCell(args[0], r)
			}
			r := new(big.Float).SetPrec(z.getPrec())
			r.SetInt64(args[1].(int64))
			return setCell(args[0], natF(r))
		},
		"(*math/big.Float).SetUint64": func(fr *frame, args []value) value {
			i := fr.i
			z := i.getF(args[0])
			if s, ok := args[1].(sym); ok {
				p := z.getPrec()
				if p == 0 {
					p = 64
				}
				r := fromFixed(s.e, 0, 64, p)
				if r.nat == nil && p < 64 {
					r = i.roundTo(r, p)
				}
				return setCell(args[0], r)
			}
			r := new(big.Float).SetPrec(z.getPrec())
			r.SetUint64(args[1].(uint64))
			return setCell(args[0], natF(r))
		},
		"(*math/big.Float).SetFloat64": func(fr *frame, args []value) value {
			i := fr.i
			z := i.getF(args[0])
			x, ok := args[1].(float64)
			if !ok {
				return i.bigSetFloat64Sym(args[0], z, args[1].(sym))
			}
			if math.IsNaN(x) {
				errNaN(i, "Float.SetFloat64(NaN)")
			}
			r := new(big.Float).SetPrec(z.getPrec())
			r.SetFloat64(x)
			return setCell(args[0], natF(r))
		},
		"(*math/big.Float).SetInt": func(fr *frame, args []value) value {
			i := fr.i
			z := i.getF(args[0])
			x := i.getI(args[1])
			if x.nat != nil {
				r := new(big.Float).SetPrec(z.getPrec())
				r.SetInt(x.nat)
				return setCell(args[0], natF(r))
			}
			p := z.getPrec()
			bits := 4096
			if lo, hi := x.sv.bounds(); lo != nil && hi != nil {
				bits = maxBig(new(big.Int).Abs(lo), new(big.Int).Abs(hi)).BitLen()
			}
			if p == 0 {
				p = uint(bits)
				if p < 64 {
					p = 64
				}
			}
			r := fromFixed(x.sv, 0, bits, p)
			if r.nat == nil {
				r = i.roundTo(r, p)
			}
			return setCell(args[0], r)
		},
		"(*math/big.Float).Neg": func(fr *frame, args []value) value {
			i := fr.i
			z, x := i.getF(args[0]), i.getF(args[1])
			if x.nat != nil {
				r := new(big.Float).SetPrec(z.getPrec())
				r.Neg(x.nat)
				return setCell(args[0], natF(r))
			}
			p := targetPrec(z, x)
			r := bigF{sv: mkNeg(x.sv), scale: x.scale, bits: x.bits, prec: x.prec}
			if x.num != nil {
				r.num = mkNeg(x.num)
			}
			if p < x.prec {
				r = i.roundTo(r, p)
			} else {
				r.prec = p
			}
			return setCell(args[0], r)
		},
		"(*math/big.Float).Abs": func(fr *frame, args []value) value {
			i := fr.i
			z, x := i.getF(args[0]), i.getF(args[1])
			if x.nat != nil {
				r := new(big.Float).SetPrec(z.getPrec())
				r.Abs(x.nat)
				return setCell(args[0], natF(r))
			}
			p := targetPrec(z, x)
			r := bigF{sv: mkAbs(x.sv), scale: x.scale, bits: x.bits, prec: x.prec}
			if x.num != nil {
				r.num = mkAbs(x.num)
			}
			if p < x.prec {
				r = i.roundTo(r, p)
			} else {
				r.prec = p
			}
			return setCell(args[0], r)
		},
		"(*math/big.Float).Add": func(fr *frame, args []value) value {
			i := fr.i
			return setCell(args[0], i.bigAddSub(i.getF(args[0]), i.getF(args[1]), i.getF(args[2]), false))
		},
		"(*math/big.Float).Sub": func(fr *frame, args []value) value {
			i := fr.i
			return setCell(args[0], i.bigAddSub(i.getF(args[0]), i.getF(args[1]), i.getF(args[2]), true))
		},
		"(*math/big.Float).Mul": func(fr *frame, args []value) value {
			i := fr.i
			return setCell(args[0], i.bigMul(i.getF(args[0]), i.getF(args[1]), i.getF(args[2])))
		},
		"(*math/big.Float).Quo": func(fr *frame, args []value) value {
			i := fr.i
			return setCell(args[0], i.bigQuo(i.getF(args[0]), i.getF(args[1]), i.getF(args[2])))
		},
		"(*math/big.Float).Cmp": func(fr *frame, args []value) value {
			i := fr.i
			return i.bigCmp(i.getF(args[0]), i.getF(args[1]))
		},
		"(*math/big.Float).Int64": func(fr *frame, args []value) value {
			i := fr.i
			x := i.getF(args[0])
			if x.nat != nil {
				v, acc := x.nat.Int64()
				return tuple{v, accValue(int(acc))}
			}
			tr, acc := truncTermsF(x)
			lo, hi := kindRange(types.Int64)
			if i.branch(mkGt(tr, mkInt(hi))) {
				return tuple{int64(math.MaxInt64), accValue(-1)}
			}
			if i.branch(mkLt(tr, mkInt(lo))) {
				return tuple{int64(math.MinInt64), accValue(1)}
			}
			tr = clampBounds(tr, lo, hi)
			return tuple{mkIntVal(types.Int64, tr), mkIntVal(types.Int8, acc)}
		},
		"(*math/big.Float).Uint64": func(fr *frame, args []value) value {
			i := fr.i
			x := i.getF(args[0])
			if x.nat != nil {
				v, acc := x.nat.Uint64()
				return tuple{v, accValue(int(acc))}
			}
			tr, acc := truncTermsF(x)
			lo, hi := kindRange(types.Uint64)
			so := signOperand(x)
			var zero *expr = mkInt64(0)
			if so.sort == sReal {
				zero = mkReal(new(big.Rat))
			}
			if i.branch(mkLt(so, zero)) {
				// negative: 0, Above (for -0 < x: big says Above when x<0)
				return tuple{uint64(0), accValue(1)}
			}
			if i.branch(mkGt(tr, mkInt(hi))) {
				return tuple{uint64(math.MaxUint64), accValue(-1)}
			}
			tr = clampBounds(tr, lo, hi)
			return tuple{mkIntVal(types.Uint64, tr), mkIntVal(types.Int8, acc)}
		},
		"(*math/big.Float).Int": func(fr *frame, args []value) value {
			i := fr.i
			x := i.getF(args[0])
			zp := args[1].(*value)
			if zp == nil {
				var c value = bigI{nat: new(big.Int)}
				zp = &c
			}
			if x.nat != nil {
				if x.nat.IsInf() {
					// returns nil, accuracy by sign
					acc := big.Below
					if x.nat.Sign() < 0 {
						acc = big.Above
					}
					return tuple{(*value)(nil), accValue(int(acc))}
				}
				v, acc := x.nat.Int(nil)
				*zp = bigI{nat: v}
				return tuple{zp, accValue(int(acc))}
			}
			tr, acc := truncTermsF(x)
			if x.num != nil {
				b := x.bits - x.scale
				if b < 1 {
					b = 1
				}
				tr = clampBounds(tr, new(big.Int).Neg(pow2(b)), pow2(b))
			}
			*zp = bigI{sv: tr}
			return tuple{zp, mkIntVal(types.Int8, acc)}
		},
		"(*math/big.Float).Float64": func(fr *frame, args []value) value {
			i := fr.i
			x := i.getF(args[0])
			if x.nat != nil {
				v, acc := x.nat.Float64()
				return tuple{v, accValue(int(acc))}
			}
			return i.bigFloat64Sym(x)
		},
		"(*math/big.Float).Float32": func(fr *frame, args []value) value {
			i := fr.i
			x := i.getF(args[0])
			if x.nat != nil {
				v, acc := x.nat.Float32()
				return tuple{v, accValue(int(acc))}
			}
			i.abort("unsupported", "Float32 of symbolic number")
			return nil
		},
		"(*math/big.Float).Text": func(fr *frame, args []value) value {
			i := fr.i
			x := i.getF(args[0])
			if x.nat != nil {
				return x.nat.Text(args[1].(uint8), args[2].(int))
			}
			return i.bigTextSym(x, args[1].(uint8), args[2].(int))
		},
		"(*math/big.Float).String": func(fr *frame, args []value) value {
			i := fr.i
			x := i.getF(args[0])
			if x.nat != nil {
				return x.nat.String()
			}
			return i.bigTextSym(x, 'g', 10)
		},
		"(*math/big.Float).GoString": func(fr *frame, args []value) value {
			x := fr.i.getF(args[0])
			if x.nat != nil {
				return x.nat.String()
			}
			return "<symbolic big.Float>"
		},
		"(*math/big.Float).Parse": func(fr *frame, args []value) value {
			i := fr.i
			z := i.getF(args[0])
			s, ok := args[1].(string)
			if !ok {
				i.abort("unsupported", "big.Float.Parse of symbolic string")
			}
			r := new(big.Float).SetPrec(z.getPrec())
			if z.nat != nil {
				r.SetMode(z.nat.Mode())
			}
			f, b, err := r.Parse(s, args[2].(int))
			if err != nil {
				return tuple{(*value)(nil), b, i.goError(err)}
			}
			setCell(args[0], natF(f))
			return tuple{args[0], b, iface{}}
		},
		"math/big.ParseFloat": func(fr *frame, args []value) value {
			i := fr.i
			s, ok := args[0].(string)
			if !ok {
				i.abort("unsupported", "big.ParseFloat of symbolic string")
			}
			f, b, err := big.ParseFloat(s, args[1].(int), args[2].(uint), big.RoundingMode(args[3].(uint8)))
			if err != nil {
				return tuple{(*value)(nil), b, i.goError(err)}
			}
			var c value = natF(f)
			return tuple{&c, b, iface{}}
		},
		"(*math/big.Float).SetString": func(fr *frame, args []value) value {
			i := fr.i
			z := i.getF(args[0])
			s, ok := args[1].(string)
			if !ok {
				i.abort("unsupported", "big.Float.SetString of symbolic string")
			}
			r := new(big.Float).SetPrec(z.getPrec())
			f, ok2 := r.SetString(s)
			if !ok2 {
				return tuple{(*value)(nil), false}
			}
			setCell(args[0], natF(f))
			return tuple{args[0], true}
		},
		"(*math/big.Float).Format": func(fr *frame, args []value) value {
			fr.i.abort("unsupported", "big.Float.Format")
			return nil
		},
		// ----- big.Int -----
		"(*math/big.Int).Cmp": func(fr *frame, args []value) value {
			i := fr.i
			x, y := i.getI(args[0]), i.getI(args[1])
			if x.nat != nil && y.nat != nil {
				return x.nat.Cmp(y.nat)
			}
			xe, ye := x.term(), y.term()
			e := mkIte(mkLt(xe, ye), mkInt64(-1), mkIte(mkGt(xe, ye), mkInt64(1), mkInt64(0)))
			e.lo, e.hi, e.bdone = big.NewInt(-1), big.NewInt(1), true
			return mkIntVal(types.Int, e)
		},
		"(*math/big.Int).Sign": func(fr *frame, args []value) value {
			x := fr.i.getI(args[0])
			if x.nat != nil {
				return x.nat.Sign()
			}
			zero := mkInt64(0)
			e := mkIte(mkLt(x.sv, zero), mkInt64(-1), mkIte(mkGt(x.sv, zero), mkInt64(1), mkInt64(0)))
			e.lo, e.hi, e.bdone = big.NewInt(-1), big.NewInt(1), true
			return mkIntVal(types.Int, e)
		},
		"(*math/big.Int).IsInt64": func(fr *frame, args []value) value {
			x := fr.i.getI(args[0])
			if x.nat != nil {
				return x.nat.IsInt64()
			}
			lo, hi := kindRange(types.Int64)
			return mkBoolVal(mkAnd(mkGe(x.sv, mkInt(lo)), mkLe(x.sv, mkInt(hi))))
		},
		"(*math/big.Int).IsUint64": func(fr *frame, args []value) value {
			x := fr.i.getI(args[0])
			if x.nat != nil {
				return x.nat.IsUint64()
			}
			lo, hi := kindRange(types.Uint64)
			return mkBoolVal(mkAnd(mkGe(x.sv, mkInt(lo)), mkLe(x.sv, mkInt(hi))))
		},
		"(*math/big.Int).Int64": func(fr *frame, args []value) value {
			x := fr.i.getI(args[0])
			if x.nat != nil {
				return x.nat.Int64()
			}
			return mkIntVal(types.Int64, wrapAny(types.Int64, x.sv))
		},
		"(*math/big.Int).Uint64": func(fr *frame, args []value) value {
			x := fr.i.getI(args[0])
			if x.nat != nil {
				return x.nat.Uint64()
			}
			return mkIntVal(types.Uint64, wrapAny(types.Uint64, x.sv))
		},
		"(*math/big.Int).SetInt64": func(fr *frame, args []value) value {
			if s, ok := args[1].(sym); ok {
				return setCell(args[0], bigI{sv: s.e})
			}
			return setCell(args[0], bigI{nat: big.NewInt(args[1].(int64))})
		},
		"(*math/big.Int).Set": func(fr *frame, args []value) value {
			x := fr.i.getI(args[1])
			if x.nat != nil {
				return setCell(args[0], bigI{nat: new(big.Int).Set(x.nat)})
			}
			return setCell(args[0], x)
		},
		"(*math/big.Int).Add": func(fr *frame, args []value) value {
			i := fr.i
			x, y := i.getI(args[1]), i.getI(args[2])
			if x.nat != nil && y.nat != nil {
				return setCell(args[0], bigI{nat: new(big.Int).Add(x.nat, y.nat)})
			}
			return setCell(args[0], bigI{sv: mkAdd(x.term(), y.term())})
		},
		"(*math/big.Int).Sub": func(fr *frame, args []value) value {
			i := fr.i
			x, y := i.getI(args[1]), i.getI(args[2])
			if x.nat != nil && y.nat != nil {
				return setCell(args[0], bigI{nat: new(big.Int).Sub(x.nat, y.nat)})
			}
			return setCell(args[0], bigI{sv: mkSub(x.term(), y.term())})
		},
		"(*math/big.Int).Mul": func(fr *frame, args []value) value {
			i := fr.i
			x, y := i.getI(args[1]), i.getI(args[2])
			if x.nat != nil && y.nat != nil {
				return setCell(args[0], bigI{nat: new(big.Int).Mul(x.nat, y.nat)})
			}
			return setCell(args[0], bigI{sv: mkMul(x.term(), y.term())})
		},
		"(*math/big.Int).Neg": func(fr *frame, args []value) value {
			x := fr.i.getI(args[1])
			if x.nat != nil {
				return setCell(args[0], bigI{nat: new(big.Int).Neg(x.nat)})
			}
			return setCell(args[0], bigI{sv: mkNeg(x.sv)})
		},
		"(*math/big.Int).String": func(fr *frame, args []value) value {
			x := fr.i.getI(args[0])
			if x.nat != nil {
				return x.nat.String()
			}
			fr.i.abort("unsupported", "big.Int.String on symbolic value")
			return nil
		},
		"(*math/big.Int).SetString": func(fr *frame, args []value) value {
			s, ok := args[1].(string)
			if !ok {
				fr.i.abort("unsupported", "big.Int.SetString of symbolic string")
			}
			base, isInt := args[2].(int)
			if !isInt {
				// a symbolic base: fork over the bases the library accepts (0 and 2..62); anything else panics there
				sv, isSym := args[2].(sym)
				if !isSym {
					fr.i.abort("unsupported", "big.Int.SetString with an unexpected base value")
				}
				base = int(fr.i.concretize(sv.e, 0, 62))
			}
			r, ok2 := new(big.Int).SetString(s, base)
			if !ok2 {
				return tuple{(*value)(nil), false}
			}
			setCell(args[0], bigI{nat: r})
			return tuple{args[0], true}
		},
	} {
		externals[k] = v
	}
}

func (x bigI) term() *expr {
	if x.nat != nil {
		return mkInt(x.nat)
	}
	return x.sv
}

func clampBounds(e *expr, lo, hi *big.Int) *expr {
	if e.op == "i" {
		return e
	}
	// record the interval on a copy of the node (the path condition implies it)
	c := *e
	c.lo, c.hi, c.bdone = lo, hi, true
	elo, ehi := e.bounds()
	if elo != nil && elo.Cmp(lo) > 0 {
		c.lo = elo
	}
	if ehi != nil && ehi.Cmp(hi) < 0 {
		c.hi = ehi
	}
	return &c
}

func exprMentions(e, v *expr) bool {
	found := false
	e.walk(map[*expr]bool{}, func(n *expr) {
		if n == v {
			found = true
		}
	})
	return found
}

// goError wraps a native Go error as a target error value (an *errors.errorString).
func (i *interpreter) goError(err error) value {
	return i.makeError(err.Error())
}

func (i *interpreter) makeError(msg string) value {
	pkg := i.prog.ImportedPackage("errors")
	t := pkg.Type("errorString").Type()
	var cell value = structure{msg}
	return iface{t: types.NewPointer(t), v: &cell}
}
