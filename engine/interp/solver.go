package interp

// One long-lived SMT solver process per worker, driven through stdin/stdout with SMT-LIB2.
// The path condition is asserted incrementally (no pops within a path: forking is by re-execution), queries are
// push/assert/check-sat/pop, and the process is (reset) between paths.

import (
	"bufio"
	"fmt"
	"io"
	"math/big"
	"os"
	"os/exec"
	"strings"
	"time"
)

type solverStats struct {
	Queries  int
	Sat      int
	Unsat    int
	Unknown  int
	Errors   int
	Time     time.Duration
	MaxQuery time.Duration
}

type solver struct {
	name    string
	cmd     *exec.Cmd
	in      io.WriteCloser
	out     *bufio.Reader
	marker  int
	stats   solverStats
	defs    map[*expr]string // sub-terms defined in the current context
	decl    map[string]bool
	ndefs   int
	logf    *os.File
	timeout int // ms per query
	dead    bool
}

func solverArgv(kind string, timeoutMs int) []string {
	switch kind {
	case "z3":
		return []string{"z3", "-in", "-smt2", fmt.Sprintf("-t:%d", timeoutMs)}
	case "cvc5":
		return []string{"cvc5", "--incremental", "--lang=smt2", fmt.Sprintf("--tlimit-per=%d", timeoutMs), "--produce-models"}
	default:
		return []string{"z3-new", "-in", "-smt2", fmt.Sprintf("-t:%d", timeoutMs)}
	}
}

func newSolver(kind string, timeoutMs int, logPath string) (*solver, error) {
	argv := solverArgv(kind, timeoutMs)
	cmd := exec.Command(argv[0], argv[1:]...)
	in, err := cmd.StdinPipe()
	if err != nil {
		return nil, err
	}
	outp, err := cmd.StdoutPipe()
	if err != nil {
		return nil, err
	}
	cmd.Stderr = cmd.Stdout
	if err := cmd.Start(); err != nil {
		return nil, err
	}
	s := &solver{name: kind, cmd: cmd, in: in, out: bufio.NewReaderSize(outp, 1<<16), timeout: timeoutMs}
	if logPath != "" {
		s.logf, _ = os.Create(logPath)
	}
	s.reset()
	return s, nil
}

func (s *solver) close() {
	if s == nil || s.cmd == nil {
		return
	}
	s.in.Close()
	s.cmd.Process.Kill()
	s.cmd.Wait()
	if s.logf != nil {
		s.logf.Close()
	}
}

func (s *solver) send(txt string) {
	if s.logf != nil {
		s.logf.WriteString(txt)
	}
	if _, err := io.WriteString(s.in, txt); err != nil {
		s.dead = true
	}
}

// sync sends an echo marker and returns all lines printed before it.
func (s *solver) sync() []string {
	s.marker++
	mk := fmt.Sprintf("@@done-%d@@", s.marker)
	s.send("(echo \"" + mk + "\")\n")
	var lines []string
	for {
		line, err := s.out.ReadString('\n')
		if err != nil {
			s.dead = true
			lines = append(lines, "(error \"solver died: "+err.Error()+"\")")
			return lines
		}
		line = strings.TrimSpace(line)
		if strings.Trim(line, "\"") == mk {
			return lines
		}
		if line != "" {
			lines = append(lines, line)
		}
	}
}

func (s *solver) reset() {
	s.send("(reset)\n")
	if s.name == "cvc5" {
		s.send("(set-logic ALL)\n")
	}
	s.send("(set-option :produce-models true)\n")
	s.defs = make(map[*expr]string)
	s.decl = make(map[string]bool)
	s.ndefs = 0
	s.sync()
}

// ensure declares variables and defines large shared sub-terms of e (outside any push).
func (s *solver) ensure(e *expr) {
	var sb strings.Builder
	seen := map[*expr]bool{}
	e.walk(seen, func(n *expr) {
		switch n.op {
		case "var":
			if !s.decl[n.name] {
				s.decl[n.name] = true
				fmt.Fprintf(&sb, "(declare-const %s %s)\n", smtName(n.name), n.sort)
			}
		case "uf":
			if !s.decl[n.name] {
				s.decl[n.name] = true
				fmt.Fprintf(&sb, "(declare-fun %s (", smtName(n.name))
				for i, a := range n.args {
					if i > 0 {
						sb.WriteByte(' ')
					}
					sb.WriteString(a.sort.String())
				}
				fmt.Fprintf(&sb, ") %s)\n", n.sort)
			}
		default:
			if n.size > 12 && len(n.args) > 0 {
				if _, ok := s.defs[n]; !ok {
					s.ndefs++
					name := fmt.Sprintf("t!%d", s.ndefs)
					fmt.Fprintf(&sb, "(define-fun %s () %s ", name, n.sort)
					n.write0(&sb, s.defs)
					sb.WriteString(")\n")
					s.defs[n] = name
				}
			}
		}
	})
	if sb.Len() > 0 {
		s.send(sb.String())
	}
}

func (s *solver) termString(e *expr) string {
	var sb strings.Builder
	e.write(&sb, s.defs)
	return sb.String()
}

// assert adds e to the permanent context of the current path.
func (s *solver) assert(e *expr) {
	s.ensure(e)
	s.send("(assert " + s.termString(e) + ")\n")
}

type satResult int

const (
	resUnsat satResult = iota
	resSat
	resUnknown
)

func (r satResult) String() string { return [...]string{"unsat", "sat", "unknown"}[r] }

// check decides context ∧ extra... ; when sat and wantModel it returns values for the requested terms.
func (s *solver) check(extra []*expr, wantModel []*expr) (satResult, model) {
	if s.dead {
		s.stats.Errors++
		return resUnknown, nil
	}
	t0 := time.Now()
	for _, e := range extra {
		s.ensure(e)
	}
	for _, e := range wantModel {
		s.ensure(e)
	}
	var sb strings.Builder
	sb.WriteString("(push 1)\n")
	for _, e := range extra {
		sb.WriteString("(assert " + s.termString(e) + ")\n")
	}
	sb.WriteString("(check-sat)\n")
	if len(wantModel) > 0 {
		sb.WriteString("(get-value (")
		for _, t := range wantModel {
			sb.WriteString(s.termString(t))
			sb.WriteByte(' ')
		}
		sb.WriteString("))\n")
	}
	s.send(sb.String())
	lines := s.sync()
	res := resUnknown
	bad := false
	answered := false
	var rest []string
	for _, l := range lines {
		switch {
		case !answered && l == "sat":
			res, answered = resSat, true
		case !answered && l == "unsat":
			res, answered = resUnsat, true
		case !answered && (l == "unknown" || l == "timeout"):
			res, answered = resUnknown, true
		case strings.HasPrefix(l, "(error"):
			if !answered || res == resSat {
				bad = true
				fmt.Fprintf(os.Stderr, "solver error: %s\n", l)
			}
		default:
			if answered {
				rest = append(rest, l)
			}
		}
	}
	if bad {
		res = resUnknown
		s.stats.Errors++
	}
	var m model
	if res == resSat && len(wantModel) > 0 {
		m = parseValues(strings.Join(rest, " "), wantModel)
		if m == nil {
			res = resUnknown
		}
	}
	s.send("(pop 1)\n")
	d := time.Since(t0)
	s.stats.Queries++
	s.stats.Time += d
	if d > s.stats.MaxQuery {
		s.stats.MaxQuery = d
	}
	switch res {
	case resSat:
		s.stats.Sat++
	case resUnsat:
		s.stats.Unsat++
	default:
		s.stats.Unknown++
	}
	return res, m
}

func parseValues(txt string, terms []*expr) model {
	m := model{}
	sx, _, err := parseSexp(txt, 0)
	if err != nil || sx.atom != "" || len(sx.list) != len(terms) {
		fmt.Fprintf(os.Stderr, "get-value parse problem: %v in %.300q\n", err, txt)
		return nil
	}
	for k, pair := range sx.list {
		if len(pair.list) != 2 {
			return nil
		}
		t := terms[k]
		v, err := sexpValue(pair.list[1], t.sort)
		if err != nil {
			// a value we cannot represent (e.g. an algebraic number): leave it out of the model
			continue
		}
		if t.op == "var" {
			m[t.name] = v
		} else {
			m["#"+fmt.Sprint(k)] = v
		}
	}
	return m
}

// ---------- s-expressions ----------

type sexp struct {
	atom string
	list []*sexp
}

func parseSexp(s string, i int) (*sexp, int, error) {
	for i < len(s) && (s[i] == ' ' || s[i] == '\n' || s[i] == '\t' || s[i] == '\r') {
		i++
	}
	if i >= len(s) {
		return nil, i, fmt.Errorf("eof")
	}
	if s[i] == '(' {
		i++
		n := &sexp{}
		for {
			for i < len(s) && (s[i] == ' ' || s[i] == '\n' || s[i] == '\t' || s[i] == '\r') {
				i++
			}
			if i >= len(s) {
				return nil, i, fmt.Errorf("unbalanced")
			}
			if s[i] == ')' {
				return n, i + 1, nil
			}
			c, j, err := parseSexp(s, i)
			if err != nil {
				return nil, j, err
			}
			n.list = append(n.list, c)
			i = j
		}
	}
	if s[i] == '|' {
		j := strings.IndexByte(s[i+1:], '|')
		if j < 0 {
			return nil, i, fmt.Errorf("unterminated |")
		}
		return &sexp{atom: s[i : i+j+2]}, i + j + 2, nil
	}
	j := i
	for j < len(s) && !strings.ContainsRune(" \n\t\r()", rune(s[j])) {
		j++
	}
	return &sexp{atom: s[i:j]}, j, nil
}

func (x *sexp) String() string {
	if x.list == nil && x.atom != "" {
		return x.atom
	}
	parts := make([]string, len(x.list))
	for i, c := range x.list {
		parts[i] = c.String()
	}
	return "(" + strings.Join(parts, " ") + ")"
}

func sexpRat(x *sexp) (*big.Rat, error) {
	if x.atom != "" {
		r, ok := new(big.Rat).SetString(x.atom)
		if !ok {
			return nil, fmt.Errorf("bad number %q", x.atom)
		}
		return r, nil
	}
	if len(x.list) == 2 && x.list[0].atom == "-" {
		r, err := sexpRat(x.list[1])
		if err != nil {
			return nil, err
		}
		return r.Neg(r), nil
	}
	if len(x.list) == 3 && x.list[0].atom == "/" {
		a, err := sexpRat(x.list[1])
		if err != nil {
			return nil, err
		}
		b, err := sexpRat(x.list[2])
		if err != nil {
			return nil, err
		}
		if b.Sign() == 0 {
			return nil, fmt.Errorf("zero denominator")
		}
		return a.Quo(a, b), nil
	}
	if len(x.list) == 2 && x.list[0].atom == "to_real" {
		return sexpRat(x.list[1])
	}
	return nil, fmt.Errorf("unsupported numeral %s", x)
}

func sexpValue(x *sexp, s smtSort) (interface{}, error) {
	switch s {
	case sBool:
		switch x.atom {
		case "true":
			return true, nil
		case "false":
			return false, nil
		}
		return nil, fmt.Errorf("bad bool %s", x)
	case sInt:
		r, err := sexpRat(x)
		if err != nil {
			return nil, err
		}
		if !r.IsInt() {
			return nil, fmt.Errorf("non-integer value for Int: %s", x)
		}
		return new(big.Int).Set(r.Num()), nil
	case sReal:
		return sexpRat(x)
	}
	return x.String(), nil
}
