package interp

// Path exploration by re-execution. A path is its sequence of decisions; the explorer keeps a LIFO of decision
// prefixes still to run. Each worker owns a solver process; the path condition lives in the solver context.

import (
	"fmt"
	"go/types"
	"math/big"
	"os"
	"sort"
	"strings"
	"time"
)

// pathAbort ends the current path without a verdict (unsupported feature, budget, cut).
type pathAbort struct {
	kind   string // "unsupported", "cut", "budget", "infeasible", "done"
	detail string
}

func (i *interpreter) abort(kind, detail string) {
	panic(pathAbort{kind, detail})
}

type nondetRec struct {
	Name string
	Kind string // "int", "bool", "byte"
	e    *expr
}

type pathEvent struct {
	Kind  string // "reach", "observe"
	ID    string
	Value string
	e     *expr
}

type cexRec struct {
	Harness   string
	AssertID  string
	Kind      string // "assert", "panic", "known"
	KnownID   string
	Detail    string
	Values    map[string]string // nondet name -> decimal / "true"/"false"
	Choices   []int             // vChoice results in order
	MapOrders []int
	Decisions []int32
	Events    []pathEvent
}

type pathCtx struct {
	ex        *Explorer
	w         *worker
	prefix    []int32
	trace     []int32
	pcN       int
	nondets   []nondetRec
	vars      []*expr // every declared constant of this path (inputs and internal)
	names     map[string]int
	choices   []int
	mapOrders []int
	events    []pathEvent
	known     map[string]*expr
	mapAll    bool
	mapEpoch  int
	steps     int
	initDur   time.Duration
	lastModel model
	depth     int
	// per-path statistics
	solverBranches int
	ufPoints       map[string][]ufPoint
	ufApps         map[string][]*expr
	inputLen       int // declared input buffer length (memory monitor); -1 = none
	ranInit        bool
	facts          map[string]bool // small conditions already decided on this path (syntactic memo)
}

// condKey is a canonical text for small boolean terms (equalities are orientation-free); "" = not memoised.
func condKey(e *expr) (key string, neg bool) {
	if e.size > 48 {
		return "", false
	}
	if e.op == "not" && len(e.args) == 1 {
		k, n := condKey(e.args[0])
		return k, !n
	}
	if e.op == "=" && len(e.args) == 2 {
		var a, b strings.Builder
		e.args[0].write(&a, nil)
		e.args[1].write(&b, nil)
		x, y := a.String(), b.String()
		if x > y {
			x, y = y, x
		}
		return "(= " + x + " " + y + ")", false
	}
	var sb strings.Builder
	e.write(&sb, nil)
	return sb.String(), false
}

func (c *pathCtx) noteFact(e *expr) {
	k, neg := condKey(e)
	if k == "" {
		return
	}
	if c.facts == nil {
		c.facts = map[string]bool{}
	}
	c.facts[k] = !neg
}

// knownFact reports whether cond was already decided on this path.
var checkPC = os.Getenv("SYMGO_CHECKPC") != ""
var noFacts = os.Getenv("SYMGO_NOFACTS") != ""

func (c *pathCtx) knownFact(cond *expr) (val, ok bool) {
	if c.facts == nil || noFacts {
		return false, false
	}
	k, neg := condKey(cond)
	if k == "" {
		return false, false
	}
	v, ok := c.facts[k]
	if !ok {
		return false, false
	}
	return v != neg, true
}

func (c *pathCtx) freshName(base string) string {
	n := c.names[base]
	c.names[base] = n + 1
	if n == 0 {
		return base
	}
	return fmt.Sprintf("%s#%d", base, n)
}

// decide consumes the next decision (from the prefix if replaying). n is the number of alternatives.
// feasible reports, for a new decision point, which alternatives are feasible (nil = all, structural).
func (c *pathCtx) decide(n int, feasible func(k int) bool) int {
	return c.decideM(n, feasible, nil)
}

func (c *pathCtx) decideM(n int, feasible func(k int) bool, seed func(k int) model) int {
	pos := len(c.trace)
	if pos < len(c.prefix) {
		d := c.prefix[pos]
		c.trace = append(c.trace, d)
		return int(d)
	}
	if pos >= c.ex.MaxDecisions {
		panic(pathAbort{"budget", fmt.Sprintf("more than %d decisions on one path", c.ex.MaxDecisions)})
	}
	first := -1
	for k := 0; k < n; k++ {
		if feasible != nil && !feasible(k) {
			continue
		}
		if first < 0 {
			first = k
			continue
		}
		alt := make([]int32, pos+1)
		copy(alt, c.trace)
		alt[pos] = int32(k)
		var m model
		if seed != nil {
			m = seed(k)
		} else if c.lastModel != nil {
			// structural alternative: the current model still satisfies the (unchanged) path condition
			m = c.lastModel
		}
		c.ex.push(workItem{alt, copyModel(m)})
	}
	if first < 0 {
		panic(pathAbort{"infeasible", "no feasible alternative"})
	}
	c.trace = append(c.trace, int32(first))
	return first
}

// assume adds e to the path condition.
func (c *pathCtx) assume(e *expr) {
	if e.op == "b" {
		if !e.bval {
			panic(pathAbort{"infeasible", "assume false"})
		}
		return
	}
	c.w.solver.assert(e)
	c.pcN++
	c.noteFact(e)
	if checkPC {
		if r, _ := c.w.solver.check(nil, nil); r == resUnsat {
			fmt.Fprintf(os.Stderr, "PC became unsat after assuming %s (replaying=%v)\n", e.String(), len(c.trace) < len(c.prefix))
			panic(pathAbort{"infeasible", "pc unsat (debug)"})
		}
	}
	if c.lastModel != nil {
		if v, ok := e.tryEval(c.lastModel); !ok || v != true {
			c.lastModel = nil
		}
	}
}

// checkSat decides pc ∧ extra.
func (c *pathCtx) checkSat(extra ...*expr) satResult {
	r, _ := c.checkSatM(extra...)
	return r
}

// checkSatM decides pc ∧ extra, using the cached model when it already satisfies extra.
func (c *pathCtx) checkSatM(extra ...*expr) (satResult, model) {
	for _, e := range extra {
		if e.op == "b" && !e.bval {
			return resUnsat, nil
		}
	}
	if c.lastModel != nil {
		all := true
		for _, e := range extra {
			if v, ok := e.tryEval(c.lastModel); !ok || v != true {
				all = false
				break
			}
		}
		if all {
			c.ex.noteModelHit()
			return resSat, c.lastModel
		}
	}
	r, m := c.w.solver.check(extra, c.vars)
	if r == resSat && len(c.vars) == 0 {
		m = model{}
	}
	return r, m
}

// branch decides a symbolic condition, forking when both sides are feasible.
func (i *interpreter) branch(cond *expr) bool {
	if cond.op == "b" {
		return cond.bval
	}
	c := i.ctx
	if v, ok := c.knownFact(cond); ok {
		return v
	}
	pos := len(c.trace)
	replay := pos < len(c.prefix)
	var sides [2]satResult
	var models [2]model
	d := c.decideM(2, func(k int) bool {
		// alternative 0 = true side, 1 = false side
		var e *expr
		if k == 0 {
			e = cond
		} else {
			e = mkNot(cond)
		}
		r, m := c.checkSatM(e)
		sides[k], models[k] = r, m
		if r == resUnknown {
			c.ex.noteUnknownBranch()
		}
		return r != resUnsat
	}, func(k int) model { return models[k] })
	if !replay && models[d] != nil {
		c.lastModel = models[d]
	}
	if !replay {
		c.solverBranches++
		c.ex.noteBranch(sides[0] != resUnsat && sides[1] != resUnsat)
	}
	if d == 0 {
		c.assume(cond)
		return true
	}
	c.assume(mkNot(cond))
	return false
}

// choose is a structural fork over n alternatives (no solver involvement).
func (i *interpreter) choose(n int) int {
	if n <= 1 {
		return 0
	}
	return i.ctx.decide(n, nil)
}

// concretize forks over the feasible values of integer term e within [lo,hi]; values outside are represented by the
// out-of-range alternative which aborts the path as a cut unless the caller handled the range beforehand.
func (i *interpreter) concretize(e *expr, lo, hi int64) int64 {
	if e.op == "i" {
		return e.ival.Int64()
	}
	if blo, bhi := e.bounds(); blo != nil && bhi != nil {
		if blo.IsInt64() && blo.Int64() > lo {
			lo = blo.Int64()
		}
		if bhi.IsInt64() && bhi.Int64() < hi {
			hi = bhi.Int64()
		}
	}
	for v := lo; v <= hi; v++ {
		if v == hi {
			// last candidate: is anything else possible?
			if i.branch(mkEq(e, mkInt64(v))) {
				return v
			}
			break
		}
		if i.branch(mkEq(e, mkInt64(v))) {
			return v
		}
	}
	i.abort("cut", fmt.Sprintf("symbolic size/index outside concretisation range [%d,%d]", lo, hi))
	return 0
}

// ---------- nondet creation ----------

func (c *pathCtx) newIntVar(name string, k types.BasicKind, lo, hi *big.Int) *expr {
	nm := c.freshName(name)
	v := mkVar(nm, sInt)
	klo, khi := kindRange(k)
	if lo == nil || lo.Cmp(klo) < 0 {
		lo = klo
	}
	if hi == nil || hi.Cmp(khi) > 0 {
		hi = khi
	}
	v.lo, v.hi, v.bdone = lo, hi, true
	c.w.solver.ensure(v)
	c.w.solver.send(fmt.Sprintf("(assert (and (<= %s %s) (<= %s %s)))\n", smtInt(lo), smtName(nm), smtName(nm), smtInt(hi)))
	c.nondets = append(c.nondets, nondetRec{nm, "int", v})
	c.vars = append(c.vars, v)
	if c.lastModel != nil {
		// any in-range value extends the model (a seeded model may already know the variable)
		if _, ok := c.lastModel[nm]; !ok {
			c.lastModel[nm] = lo
		}
	}
	return v
}

func (c *pathCtx) newBoolVar(name string) *expr {
	nm := c.freshName(name)
	v := mkVar(nm, sBool)
	c.w.solver.ensure(v)
	c.nondets = append(c.nondets, nondetRec{nm, "bool", v})
	c.vars = append(c.vars, v)
	if c.lastModel != nil {
		if _, ok := c.lastModel[nm]; !ok {
			c.lastModel[nm] = false
		}
	}
	return v
}

// internal fresh variable (not a harness input; not replayed)
func (c *pathCtx) newInternal(base string, s smtSort) *expr {
	nm := c.freshName("$" + base)
	v := mkVar(nm, s)
	c.w.solver.ensure(v)
	c.vars = append(c.vars, v)
	if c.lastModel != nil {
		if _, ok := c.lastModel[nm]; !ok {
			c.lastModel = nil
		}
	}
	return v
}

// modelValues asks the solver for a model of pc ∧ extra restricted to the harness inputs.
func (c *pathCtx) modelValues(extra ...*expr) (satResult, map[string]string) {
	r, out, _ := c.modelValuesM(extra...)
	return r, out
}

func (c *pathCtx) modelValuesM(extra ...*expr) (satResult, map[string]string, model) {
	terms := make([]*expr, 0, len(c.nondets))
	for _, n := range c.nondets {
		terms = append(terms, n.e)
	}
	r, m := c.w.solver.check(extra, terms)
	if r != resSat {
		return r, nil, nil
	}
	out := map[string]string{}
	for _, n := range c.nondets {
		switch v := m[n.Name].(type) {
		case *big.Int:
			out[n.Name] = v.String()
		case bool:
			out[n.Name] = fmt.Sprint(v)
		case *big.Rat:
			out[n.Name] = v.RatString()
		default:
			out[n.Name] = fmt.Sprint(v)
		}
	}
	return r, out, m
}

func (c *pathCtx) snapshotCex(harness, id, kind, detail string, vals map[string]string) *cexRec {
	return &cexRec{
		Harness: harness, AssertID: id, Kind: kind, Detail: detail, Values: vals,
		Choices:   append([]int(nil), c.choices...),
		MapOrders: append([]int(nil), c.mapOrders...),
		Decisions: append([]int32(nil), c.trace...),
		Events:    c.concreteEvents(vals),
	}
}

func sortedKeys(m map[string]string) []string {
	ks := make([]string, 0, len(m))
	for k := range m {
		ks = append(ks, k)
	}
	sort.Strings(ks)
	return ks
}

func fmtVals(m map[string]string) string {
	var sb strings.Builder
	for _, k := range sortedKeys(m) {
		fmt.Fprintf(&sb, "%s=%s ", k, m[k])
	}
	return strings.TrimSpace(sb.String())
}

func copyModel(m model) model {
	if m == nil {
		return nil
	}
	out := make(model, len(m))
	for k, v := range m {
		out[k] = v
	}
	return out
}
