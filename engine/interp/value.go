// Copyright 2013 The Go Authors. All rights reserved.
// Use of this source code is governed by a BSD-style
// license that can be found in the LICENSE file.

package interp

// Values
//
// All interpreter values are "boxed" in the empty interface, value.
// The range of possible dynamic types within value are:
//
// - bool
// - numbers (all built-in int/float/complex types are distinguished)
// - string
// - map[value]value --- maps for which  usesBuiltinMap(keyType)
//   *hashmap        --- maps for which !usesBuiltinMap(keyType)
// - chan value
// - []value --- slices
// - iface --- interfaces.
// - structure --- structs.  Fields are ordered and accessed by numeric indices.
// - array --- arrays.
// - *value --- pointers.  Careful: *value is a distinct type from *array etc.
// - *ssa.Function \
//   *ssa.Builtin   } --- functions.  A nil 'func' is always of type *ssa.Function.
//   *closure      /
// - tuple --- as returned by Return, Next, "value,ok" modes, etc.
// - iter --- iterators from 'range' over map or string.
// - bad --- a poison pill for locals that have gone out of scope.
// - rtype -- the interpreter's concrete implementation of reflect.Type
// - **deferred -- the address of a frame's defer stack for a Defer._Stack.
//
// Note that nil is not on this list.
//
// Pay close attention to whether or not the dynamic type is a pointer.
// The compiler cannot help you since value is an empty interface.

import (
	"bytes"
	"fmt"
	"go/types"
	"go/token"
	"io"
	"strings"

	"golang.org/x/tools/go/ssa"
)

type value interface{}

type tuple []value

type array []value

type iface struct {
	t types.Type // never an "untyped" type
	v value
}

type structure []value

// For map, array, *array, slice, string or channel.
type iter interface {
	// next returns a Tuple (key, value, ok).
	// key and value are unaliased, e.g. copies of the sequence element.
	next() tuple
}

type closure struct {
	Fn  *ssa.Function
	Env []value
}

type bad struct{}

type rtype struct {
	t types.Type
}

// nil-tolerant variant of types.Identical.
func sameType(x, y types.Type) bool {
	if x == nil {
		return y == nil
	}
	return y != nil && types.Identical(x, y)
}

// equals returns x == y according to Go's equivalence relation for type t, as a bool or a symbolic bool.
// In a well-typed program, the dynamic types of x and y are guaranteed equal.
func (i *interpreter) equals(t types.Type, x, y value) value {
	switch x := x.(type) {
	case bool:
		if yy, ok := y.(bool); ok {
			return x == yy
		}
		return mkBoolVal(mkEq(exprOf(x), exprOf(y)))
	case sym:
		if x.k == types.Float64 || x.k == types.Float32 {
			return i.fpBinop(token.EQL, x.k, x, y)
		}
		return mkBoolVal(mkEq(x.e, exprOf(y)))
	case int, int8, int16, int32, int64, uint, uint8, uint16, uint32, uint64, uintptr:
		if sy, ok := y.(sym); ok {
			return mkBoolVal(mkEq(exprOf(x), sy.e))
		}
		return x == y
	case float32:
		if sy, ok := y.(sym); ok {
			return i.fpBinop(token.EQL, sy.k, x, y)
		}
		return x == y.(float32)
	case float64:
		if sy, ok := y.(sym); ok {
			return i.fpBinop(token.EQL, sy.k, x, y)
		}
		return x == y.(float64)
	case complex64:
		return x == y.(complex64)
	case complex128:
		return x == y.(complex128)
	case string:
		if ys, ok := y.(string); ok {
			return x == ys
		}
		return i.strEq(x, y)
	case symstr, numtext:
		return i.strEq(x, y)
	case *value:
		return x == y.(*value)
	case structure:
		y := y.(structure)
		if n, ok := t.(*types.Named); ok && n.Obj().Pkg() != nil && n.Obj().Pkg().Path() == "reflect" && n.Obj().Name() == "Value" {
			// the emulated reflect.Value: only comparison with the zero Value is meaningful
			zero := func(v structure) bool {
				if rt, ok := v[0].(rtype); ok {
					return rt.t == nil
				}
				return true
			}
			if zero(x) || zero(y) {
				return zero(x) == zero(y)
			}
			return false
		}
		tStruct := t.Underlying().(*types.Struct)
		var acc value = true
		for k, n := 0, tStruct.NumFields(); k < n; k++ {
			if f := tStruct.Field(k); f.Name() != "_" {
				acc = i.vand(acc, i.equals(f.Type(), x[k], y[k]))
				if acc == false {
					return false
				}
			}
		}
		return acc
	case array:
		y := y.(array)
		tElt := t.Underlying().(*types.Array).Elem()
		var acc value = true
		for k, xi := range x {
			acc = i.vand(acc, i.equals(tElt, xi, y[k]))
			if acc == false {
				return false
			}
		}
		return acc
	case iface:
		y := y.(iface)
		if !sameType(x.t, y.t) {
			return false
		}
		if x.t == nil {
			return true
		}
		if !types.Comparable(x.t) {
			panic(runtimeErr(fmt.Sprintf("comparing uncomparable type %s", x.t)))
		}
		return i.equals(x.t, x.v, y.v)
	case rtype:
		return types.Identical(x.t, y.(rtype).t)
	case bigF, bigI:
		i.abort("unsupported", "comparison of math/big struct values")
	}

	// Since map, func and slice don't support comparison, this
	// case is only reachable if one of x or y is literally nil
	// (handled in eqnil) or via interface{} values.
	panic(runtimeErr(fmt.Sprintf("comparing uncomparable type %s", t)))
}

func (i *interpreter) vand(a, b value) value {
	if ab, ok := a.(bool); ok {
		if !ab {
			return false
		}
		return b
	}
	if bb, ok := b.(bool); ok {
		if !bb {
			return false
		}
		return a
	}
	return mkBoolVal(mkAnd(a.(sym).e, b.(sym).e))
}

// reflect.Value struct values don't have a fixed shape, since the
// payload can be a scalar or an aggregate depending on the instance.
// So store (and load) can't simply use recursion over the shape of the
// rhs value, or the lhs, to copy the value; we need the static type
// information.  (We can't make reflect.Value a new basic data type
// because its "structness" is exposed to Go programs.)

// load returns the value of type T in *addr.
func load(T types.Type, addr *value) value {
	switch T := T.Underlying().(type) {
	case *types.Struct:
		v, ok := (*addr).(structure)
		if !ok {
			return *addr // modelled object (big.Float, reflect.Value...): immutable value
		}
		a := make(structure, len(v))
		for i := range a {
			a[i] = load(T.Field(i).Type(), &v[i])
		}
		return a
	case *types.Array:
		v := (*addr).(array)
		a := make(array, len(v))
		for i := range a {
			a[i] = load(T.Elem(), &v[i])
		}
		return a
	default:
		return *addr
	}
}

// store stores value v of type T into *addr.
func store(T types.Type, addr *value, v value) {
	switch T := T.Underlying().(type) {
	case *types.Struct:
		lhs, ok := (*addr).(structure)
		rhs, ok2 := v.(structure)
		if !ok || !ok2 {
			*addr = v
			return
		}
		for i := range lhs {
			store(T.Field(i).Type(), &lhs[i], rhs[i])
		}
	case *types.Array:
		lhs := (*addr).(array)
		rhs := v.(array)
		for i := range lhs {
			store(T.Elem(), &lhs[i], rhs[i])
		}
	default:
		*addr = v
	}
}

// Prints in the style of built-in println.
// (More or less; in gc println is actually a compiler intrinsic and
// can distinguish println(1) from println(interface{}(1)).)
func writeValue(buf *bytes.Buffer, v value) {
	switch v := v.(type) {
	case nil, bool, int, int8, int16, int32, int64, uint, uint8, uint16, uint32, uint64, uintptr, float32, float64, complex64, complex128, string:
		fmt.Fprintf(buf, "%v", v)

	case *omap:
		buf.WriteString("map[")
		sep := ""
		if v != nil {
			for _, e := range v.entries {
				if e.deleted {
					continue
				}
				buf.WriteString(sep)
				sep = " "
				writeValue(buf, e.key)
				buf.WriteString(":")
				writeValue(buf, e.val)
			}
		}
		buf.WriteString("]")

	case sym:
		fmt.Fprintf(buf, "<sym %s>", v.e)

	case symstr:
		buf.WriteString("<symstr>")

	case chan value:
		fmt.Fprintf(buf, "%v", v) // (an address)

	case *value:
		if v == nil {
			buf.WriteString("<nil>")
		} else {
			fmt.Fprintf(buf, "%p", v)
		}

	case iface:
		fmt.Fprintf(buf, "(%s, ", v.t)
		writeValue(buf, v.v)
		buf.WriteString(")")

	case structure:
		buf.WriteString("{")
		for i, e := range v {
			if i > 0 {
				buf.WriteString(" ")
			}
			writeValue(buf, e)
		}
		buf.WriteString("}")

	case array:
		buf.WriteString("[")
		for i, e := range v {
			if i > 0 {
				buf.WriteString(" ")
			}
			writeValue(buf, e)
		}
		buf.WriteString("]")

	case []value:
		buf.WriteString("[")
		for i, e := range v {
			if i > 0 {
				buf.WriteString(" ")
			}
			writeValue(buf, e)
		}
		buf.WriteString("]")

	case *ssa.Function, *ssa.Builtin, *closure:
		fmt.Fprintf(buf, "%p", v) // (an address)

	case rtype:
		buf.WriteString(v.t.String())

	case tuple:
		// Unreachable in well-formed Go programs
		buf.WriteString("(")
		for i, e := range v {
			if i > 0 {
				buf.WriteString(", ")
			}
			writeValue(buf, e)
		}
		buf.WriteString(")")

	default:
		fmt.Fprintf(buf, "<%T>", v)
	}
}

// Implements printing of Go values in the style of built-in println.
func toString(v value) string {
	var b bytes.Buffer
	writeValue(&b, v)
	return b.String()
}

// ------------------------------------------------------------------------
// Iterators

type stringIter struct {
	*strings.Reader
	i int
}

func (it *stringIter) next() tuple {
	okv := make(tuple, 3)
	ch, n, err := it.ReadRune()
	ok := err != io.EOF
	okv[0] = ok
	if ok {
		okv[1] = it.i
		okv[2] = ch
	}
	it.i += n
	return okv
}

type symstrIter struct {
	i *interpreter
	s symstr
	k int
}

func (it *symstrIter) next() tuple {
	if it.k >= len(it.s) {
		return tuple{false, nil, nil}
	}
	b := it.s[it.k]
	idx := it.k
	it.k++
	if sb, ok := b.(sym); ok {
		if !it.i.branch(mkLt(sb.e, mkInt64(0x80))) {
			it.i.abort("cut", "non-ASCII symbolic byte in string iteration")
		}
		return tuple{true, idx, mkIntVal(types.Int32, sb.e)}
	}
	c := b.(uint8)
	if c >= 0x80 {
		it.i.abort("cut", "non-ASCII byte in partly symbolic string iteration")
	}
	return tuple{true, idx, int32(c)}
}
