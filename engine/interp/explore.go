package interp

// The explorer: runs one harness function over all feasible paths within the budgets, with a pool of workers.

import (
	"fmt"
	"go/types"
	"math/big"
	"os"
	"runtime"
	"runtime/debug"
	"sort"
	"strings"
	"sync"
	"time"

	"golang.org/x/tools/go/ssa"
)

type KnownFinding struct {
	Property string `json:"property"`
	ID       string `json:"id"`      // vKnown id
	Harness  string `json:"harness"` // harness function name
	Assert   string `json:"assert"`  // vAssert id the finding belongs to
	What     string `json:"what"`
}

type AssertStat struct {
	Reached      int // feasible paths that reached the site
	Folded       int // condition was concretely true
	Discharged   int // solver said unsat for the negation
	Violations   int
	Known        int
	Inconclusive int
}

type Witness struct {
	Harness   string
	Values    map[string]string
	Choices   []int
	Decisions []int32
	Events    []pathEvent
}

type Stats struct {
	Paths          int // completed paths
	PanicPaths     int // paths that ended in an escaping panic (violations)
	Aborted        map[string]int
	AbortDetail    map[string]int
	Branches       int // solver-decided branch points
	BranchesBoth   int // ... where both sides were feasible
	UnknownBranch  int
	ModelHits      int // branch sides / assumptions decided by evaluating the cached model (no query)
	ShapeForks     int
	Asserts        map[string]*AssertStat
	Reach          map[string]int
	Funcs          map[string]int
	Assumptions    map[string]bool
	Rounded        int
	MaxDecisions   int
	Steps          int64
	InitTime       time.Duration
	Concretised    int // symbolic sizes above the exhaustively forked range, represented by their two extremes
	SolverQueries  int
	SolverTime     time.Duration
	SolverUnknown  int
	SolverErrors   int
	SolverMaxQuery time.Duration
	Wall           time.Duration
	InternalErrors []string
	SymbolicMakes  int
}

type Explorer struct {
	Prog               *ssa.Program
	Sizes              types.Sizes
	runtimeErrorString types.Type
	InitPkgs           map[string]bool // package paths whose initialisers are interpreted
	HarnessPkgs        map[string]bool // packages that define the v* vocabulary
	Known              []KnownFinding

	Tier          int
	Workers       int
	SolverKind    string
	TimeoutMs     int
	MaxDecisions  int
	MaxSteps      int
	MaxPaths      int
	MaxConcretize int
	MaxWitnesses  int
	MaxCexPerSite int
	Trace         bool
	SolverLogDir  string
	MemK, MemC    int64 // memory monitor: bytes <= MemK*len(input)+MemC

	mu      sync.Mutex
	cond    *sync.Cond
	queue   []workItem
	active  int
	stop    bool
	harness *ssa.Function
	hname   string

	fnCount        map[*ssa.Function]int
	PerPathInit    map[string]bool // packages re-initialised on every path (go-cty's own)
	baseGlobals    map[*ssa.Global]*value
	baseOnce       sync.Once
	buildingBase   bool
	reflectOnce    sync.Once
	reflectPackage *ssa.Package
	rtypeMethods   methodSet
	errorMethods   methodSet

	St        Stats
	Cex       []*cexRec
	KnownHits []*cexRec
	Witnesses []*Witness
	Truncated bool
}

type workItem struct {
	prefix []int32
	seed   model
}

type worker struct {
	id     int
	solver *solver
}

func NewExplorer(prog *ssa.Program, sizes types.Sizes) *Explorer {
	ex := &Explorer{
		Prog: prog, Sizes: sizes,
		Workers: runtime.NumCPU(), SolverKind: "z3-new", TimeoutMs: 60000,
		MaxDecisions: 4000, MaxSteps: 400000, MaxPaths: 2000000, MaxConcretize: 16,
		MaxWitnesses: 20, MaxCexPerSite: 6, MemK: 64, MemC: 1<<20 + 1<<16,
		InitPkgs: map[string]bool{}, HarnessPkgs: map[string]bool{}, PerPathInit: map[string]bool{},
	}
	ex.cond = sync.NewCond(&ex.mu)
	rt := prog.ImportedPackage("runtime")
	if rt == nil {
		panic("program does not include package runtime")
	}
	ex.runtimeErrorString = rt.Type("errorString").Object().Type()
	return ex
}

func (ex *Explorer) resetStats() {
	ex.St = Stats{Aborted: map[string]int{}, AbortDetail: map[string]int{}, Asserts: map[string]*AssertStat{},
		Reach: map[string]int{}, Funcs: map[string]int{}, Assumptions: map[string]bool{}}
	ex.Cex, ex.KnownHits, ex.Witnesses = nil, nil, nil
	ex.Truncated = false
	ex.fnCount = map[*ssa.Function]int{}
	ex.queue = nil
	ex.stop = false
}

func (ex *Explorer) push(p workItem) {
	ex.mu.Lock()
	ex.queue = append(ex.queue, p)
	ex.mu.Unlock()
	ex.cond.Signal()
}

func (ex *Explorer) noteBranch(both bool) {
	ex.mu.Lock()
	ex.St.Branches++
	if both {
		ex.St.BranchesBoth++
	}
	ex.mu.Unlock()
}
func (ex *Explorer) noteModelHit() {
	ex.mu.Lock()
	ex.St.ModelHits++
	ex.mu.Unlock()
}
func (ex *Explorer) noteUnknownBranch() {
	ex.mu.Lock()
	ex.St.UnknownBranch++
	ex.mu.Unlock()
}
func (ex *Explorer) noteAssumption(s string) {
	ex.mu.Lock()
	ex.St.Assumptions[s] = true
	ex.mu.Unlock()
}
func (ex *Explorer) noteRounded() {
	ex.mu.Lock()
	ex.St.Rounded++
	ex.mu.Unlock()
}
func (ex *Explorer) noteFunc(fn *ssa.Function) {
	if true {
		return
	}
	if fn.Pkg == nil && fn.Origin() == nil {
		return
	}
	p := fn.Pkg
	if p == nil && fn.Origin() != nil {
		p = fn.Origin().Pkg
	}
	if p == nil || !strings.Contains(p.Pkg.Path(), "go-cty") {
		return
	}
	_ = p
}

func (ex *Explorer) mergeFuncs(m map[*ssa.Function]int) {
	ex.mu.Lock()
	for fn, n := range m {
		ex.fnCount[fn] += n
	}
	ex.mu.Unlock()
}

func (ex *Explorer) finalizeFuncs() {
	for fn, n := range ex.fnCount {
		p := fn.Pkg
		if p == nil && fn.Origin() != nil {
			p = fn.Origin().Pkg
		}
		if p == nil || !strings.Contains(p.Pkg.Path(), "go-cty") {
			continue
		}
		name := fn.String()
		if strings.Contains(name, "verif") || strings.HasSuffix(name, ".init") {
			continue
		}
		ex.St.Funcs[name] += n
	}
}

func (ex *Explorer) shouldInit(pkg *ssa.Package) bool {
	if pkg == nil || !ex.InitPkgs[pkg.Pkg.Path()] {
		return false
	}
	if ex.buildingBase {
		return !ex.PerPathInit[pkg.Pkg.Path()]
	}
	return true
}

// prepareBase runs, once, the initialisers of the whitelisted packages that are not re-initialised per path
// (standard library and third-party packages). Their global state is shared read-only by all paths.
func (ex *Explorer) prepareBase() {
	ex.baseOnce.Do(func() {
		ex.buildingBase = true
		defer func() { ex.buildingBase = false }()
		i := newInterpreter(ex, 0)
		var paths []string
		for p := range ex.InitPkgs {
			if !ex.PerPathInit[p] {
				paths = append(paths, p)
			}
		}
		sort.Strings(paths)
		for _, p := range paths {
			pkg := ex.Prog.ImportedPackage(p)
			if pkg == nil {
				continue
			}
			func() {
				defer func() {
					if r := recover(); r != nil {
						ex.St.InternalErrors = append(ex.St.InternalErrors, fmt.Sprintf("initialiser of %s failed: %v", p, r))
						fmt.Fprintf(os.Stderr, "warning: initialiser of %s failed in the interpreter: %v\n", p, r)
					}
				}()
				if init := pkg.Func("init"); init != nil {
					call(i, nil, init.Pos(), init, nil)
				}
			}()
		}
		ex.baseGlobals = i.globals
	})
}

func (ex *Explorer) assertStat(id string) *AssertStat {
	a := ex.St.Asserts[id]
	if a == nil {
		a = &AssertStat{}
		ex.St.Asserts[id] = a
	}
	return a
}

// Run explores harness fn. It returns after every path has been executed or a budget was hit.
func (ex *Explorer) Run(fn *ssa.Function, name string) {
	ex.resetStats()
	ex.prepareBase()
	ex.harness, ex.hname = fn, name
	t0 := time.Now()
	ex.queue = []workItem{{}}
	var wg sync.WaitGroup
	doneCh := make(chan struct{})
	if os.Getenv("SYMGO_PROGRESS") != "" {
		go func() {
			tk := time.NewTicker(5 * time.Second)
			defer tk.Stop()
			for {
				select {
				case <-doneCh:
					return
				case <-tk.C:
					ex.mu.Lock()
					fmt.Fprintf(os.Stderr, "  .. %s %.0fs paths=%d panic=%d aborted=%v queue=%d active=%d branches=%d\n", name, time.Since(t0).Seconds(), ex.St.Paths, ex.St.PanicPaths, ex.St.Aborted, len(ex.queue), ex.active, ex.St.Branches)
					ex.mu.Unlock()
				}
			}
		}()
	}
	defer close(doneCh)
	nw := ex.Workers
	if nw < 1 {
		nw = 1
	}
	for k := 0; k < nw; k++ {
		wg.Add(1)
		go func(id int) {
			defer wg.Done()
			logp := ""
			if ex.SolverLogDir != "" {
				logp = fmt.Sprintf("%s/solver-%s-%d.smt2", ex.SolverLogDir, name, id)
			}
			s, err := newSolver(ex.SolverKind, ex.TimeoutMs, logp)
			if err != nil {
				ex.mu.Lock()
				ex.St.InternalErrors = append(ex.St.InternalErrors, "cannot start solver: "+err.Error())
				ex.mu.Unlock()
				return
			}
			w := &worker{id: id, solver: s}
			defer func() {
				ex.mu.Lock()
				ex.St.SolverQueries += s.stats.Queries
				ex.St.SolverTime += s.stats.Time
				ex.St.SolverUnknown += s.stats.Unknown
				ex.St.SolverErrors += s.stats.Errors
				if s.stats.MaxQuery > ex.St.SolverMaxQuery {
					ex.St.SolverMaxQuery = s.stats.MaxQuery
				}
				ex.mu.Unlock()
				s.close()
			}()
			for {
				ex.mu.Lock()
				for len(ex.queue) == 0 && ex.active > 0 && !ex.stop {
					ex.cond.Wait()
				}
				if ex.stop || (len(ex.queue) == 0 && ex.active == 0) {
					ex.mu.Unlock()
					ex.cond.Broadcast()
					return
				}
				p := ex.queue[len(ex.queue)-1]
				ex.queue = ex.queue[:len(ex.queue)-1]
				ex.active++
				ex.mu.Unlock()

				ex.runPath(w, p)

				ex.mu.Lock()
				ex.active--
				total := ex.St.Paths + ex.St.PanicPaths
				for _, n := range ex.St.Aborted {
					total += n
				}
				if total >= ex.MaxPaths {
					ex.stop = true
					ex.Truncated = true
				}
				ex.mu.Unlock()
				ex.cond.Broadcast()
			}
		}(k)
	}
	wg.Wait()
	if len(ex.queue) > 0 {
		ex.Truncated = true
	}
	ex.finalizeFuncs()
	ex.St.Wall = time.Since(t0)
}

func (ex *Explorer) runPath(w *worker, item workItem) {
	prefix := item.prefix
	w.solver.reset()
	i := newInterpreter(ex, 0)
	if ex.Trace {
		i.mode |= EnableTracing
	}
	c := &pathCtx{ex: ex, w: w, prefix: prefix, names: map[string]int{}, known: map[string]*expr{}, inputLen: -1, lastModel: item.seed}
	i.ctx = c
	var outcome string
	var detail string
	func() {
		defer func() {
			r := recover()
			if r == nil {
				outcome = "done"
				return
			}
			if os.Getenv("SYMGO_DEBUG") != "" {
				if _, isAbort := r.(pathAbort); !isAbort || os.Getenv("SYMGO_DEBUG") == "2" {
					fmt.Fprintf(os.Stderr, "DEBUG path ended: %T %v\ntarget stack: %s\n", r, r, strings.Join(i.dbgStack, "\n   "))
					if os.Getenv("SYMGO_DEBUG") == "3" {
						fmt.Fprintf(os.Stderr, "%s\n", debug.Stack())
					}
				}
			}
			switch p := r.(type) {
			case pathAbort:
				outcome, detail = p.kind, p.detail
			case internalError:
				outcome, detail = "internal", p.msg
			case targetPanic:
				outcome, detail = "panic", "panic: "+i.panicString(p.v)
			case runtime.Error:
				if _, mine := p.(runtimeErr); mine {
					outcome, detail = "panic", p.Error()
				} else {
					// a native runtime error inside the interpreter: either the target's own fault mirrored by
					// the interpreter's data structures (index, nil map, slice bounds) or an engine defect.
					msg := p.Error()
					if strings.Contains(msg, "index out of range") || strings.Contains(msg, "slice bounds out of range") ||
						strings.Contains(msg, "integer divide by zero") || strings.Contains(msg, "nil pointer dereference") {
						outcome, detail = "panic", msg
					} else {
						outcome, detail = "internal", msg+"\n"+string(debug.Stack())
					}
				}
			case string:
				if strings.HasPrefix(p, "interface conversion:") || strings.HasPrefix(p, "value method") {
					outcome, detail = "panic", p
				} else {
					outcome, detail = "internal", p+"\n"+string(debug.Stack())
				}
			default:
				outcome, detail = "internal", fmt.Sprintf("%T: %v\n%s", r, r, debug.Stack())
			}
		}()
		tInit := time.Now()
		i.runInits()
		c.initDur = time.Since(tInit)
		call(i, nil, ex.harness.Pos(), ex.harness, nil)
	}()

	switch outcome {
	case "done":
		ex.finishPath(i, c)
	case "panic":
		// implicit assertion: the harness does not panic
		r, vals := c.modelValues()
		ex.mu.Lock()
		ex.St.PanicPaths++
		a := ex.assertStat("no-panic")
		a.Reached++
		if r == resSat {
			a.Violations++
			if a.Violations <= ex.MaxCexPerSite {
				ex.Cex = append(ex.Cex, c.snapshotCex(ex.hname, "no-panic", "panic", detail, vals))
			}
		} else {
			a.Inconclusive++
		}
		ex.mu.Unlock()
	case "internal":
		ex.mu.Lock()
		ex.St.Aborted["internal"]++
		if len(ex.St.InternalErrors) < 5 {
			ex.St.InternalErrors = append(ex.St.InternalErrors, detail)
		}
		ex.mu.Unlock()
	default:
		ex.mu.Lock()
		ex.St.Aborted[outcome]++
		ex.St.AbortDetail[outcome+": "+detail]++
		ex.mu.Unlock()
	}
	ex.mergeFuncs(i.fnSeen)
	ex.mu.Lock()
	ex.St.Steps += int64(c.steps)
	ex.St.InitTime += c.initDur
	if len(c.trace) > ex.St.MaxDecisions {
		ex.St.MaxDecisions = len(c.trace)
	}
	ex.mu.Unlock()
}

func (ex *Explorer) finishPath(i *interpreter, c *pathCtx) {
	ex.mu.Lock()
	ex.St.Paths++
	want := len(ex.Witnesses) < ex.MaxWitnesses
	ex.mu.Unlock()
	if !want {
		return
	}
	r, vals := c.modelValues()
	if r != resSat {
		return
	}
	w := &Witness{Harness: ex.hname, Values: vals, Choices: append([]int(nil), c.choices...),
		Decisions: append([]int32(nil), c.trace...), Events: c.concreteEvents(vals)}
	ex.mu.Lock()
	if len(ex.Witnesses) < ex.MaxWitnesses {
		ex.Witnesses = append(ex.Witnesses, w)
	}
	ex.mu.Unlock()
}

func (i *interpreter) panicString(v value) string {
	if it, ok := v.(iface); ok {
		if it.t == nil {
			return "nil"
		}
		switch x := it.v.(type) {
		case string:
			return x
		case symstr:
			return "<symbolic string>"
		case structure:
			if len(x) == 1 {
				if s, ok := x[0].(string); ok {
					return fmt.Sprintf("%s{%s}", it.t, s)
				}
			}
		case *value:
			if x != nil {
				if st, ok := (*x).(structure); ok && len(st) >= 1 {
					if s, ok := st[0].(string); ok {
						return fmt.Sprintf("%s: %s", it.t, s)
					}
				}
			}
		}
		return fmt.Sprintf("(%s) %s", it.t, toString(it.v))
	}
	return toString(v)
}

// runInits runs the package initialisers of the whitelisted packages reachable from the harness package.
func (i *interpreter) runInits() {
	pkg := i.ex.harness.Pkg
	if init := pkg.Func("init"); init != nil {
		call(i, nil, init.Pos(), init, nil)
	}
}

func (ex *Explorer) noteSymbolicMake(i *interpreter, n *expr, elem types.Type, fr *frame, instr ssa.Instruction) {
	ex.mu.Lock()
	ex.St.SymbolicMakes++
	ex.mu.Unlock()
	c := i.ctx
	if c.inputLen < 0 {
		return
	}
	// memory monitor: size*sizeof(elem) <= K*len(input)+C
	sz := int64(16)
	if elem != nil {
		sz = ex.Sizes.Sizeof(elem)
	}
	limit := (ex.MemK*int64(c.inputLen) + ex.MemC) / sz
	cond := mkLe(n, mkInt64(limit))
	pos := ex.Prog.Fset.Position(instr.Pos())
	id := fmt.Sprintf("mem@%s:%d", shortFile(pos.Filename), pos.Line)
	i.vAssert(id, mkBoolVal(cond), fmt.Sprintf("allocation size from input exceeds %d*len(input)+%d bytes", ex.MemK, ex.MemC))
}

func shortFile(f string) string {
	if k := strings.LastIndex(f, "/"); k >= 0 {
		return f[k+1:]
	}
	return f
}

// vAssert decides an assertion: pc ∧ ¬cond must be unsatisfiable (modulo recorded known findings).
func (i *interpreter) vAssert(id string, cv value, detail string) {
	ex, c := i.ex, i.ctx
	cond := exprOf(cv)
	ex.mu.Lock()
	a := ex.assertStat(id)
	a.Reached++
	ex.mu.Unlock()
	if cond.op == "b" && cond.bval {
		ex.mu.Lock()
		a.Folded++
		ex.mu.Unlock()
		return
	}
	neg := mkNot(cond)
	var known *expr
	var knownIDs []string
	for _, k := range ex.Known {
		if (k.Harness == ex.hname || k.Harness == "*") && k.Assert == id {
			if kc, ok := c.known[k.ID]; ok {
				knownIDs = append(knownIDs, k.ID)
				if known == nil {
					known = kc
				} else {
					known = mkOr(known, kc)
				}
			}
		}
	}
	record := func(kind string, vals map[string]string) {
		rec := c.snapshotCex(ex.hname, id, kind, detail, vals)
		ex.mu.Lock()
		if kind == "known" {
			a.Known++
			rec.KnownID = strings.Join(knownIDs, ",")
			if a.Known <= ex.MaxCexPerSite {
				ex.KnownHits = append(ex.KnownHits, rec)
			}
		} else {
			a.Violations++
			if a.Violations <= ex.MaxCexPerSite {
				ex.Cex = append(ex.Cex, rec)
			}
		}
		ex.mu.Unlock()
	}
	if known != nil {
		r1, v1 := c.modelValues(neg, mkNot(known))
		r2, v2 := c.modelValues(neg, known)
		switch {
		case r1 == resSat:
			record("assert", v1)
		case r1 == resUnknown:
			ex.mu.Lock()
			a.Inconclusive++
			ex.mu.Unlock()
		}
		if r2 == resSat {
			record("known", v2)
		}
		if r1 == resUnsat && r2 != resSat {
			ex.mu.Lock()
			a.Discharged++
			ex.mu.Unlock()
		}
	} else {
		r, v := c.modelValues(neg)
		ex.mu.Lock()
		switch r {
		case resUnsat:
			a.Discharged++
		case resUnknown:
			a.Inconclusive++
		}
		ex.mu.Unlock()
		if r == resSat {
			record("assert", v)
		}
	}
	c.assume(cond)
}

// concreteEvents evaluates the observed terms under the model of the harness inputs.
func (c *pathCtx) concreteEvents(vals map[string]string) []pathEvent {
	m := model{}
	for _, n := range c.nondets {
		s, ok := vals[n.Name]
		if !ok {
			continue
		}
		switch n.Kind {
		case "bool":
			m[n.Name] = s == "true"
		default:
			if v, ok := new(big.Int).SetString(s, 10); ok {
				m[n.Name] = v
			}
		}
	}
	out := make([]pathEvent, len(c.events))
	for k, ev := range c.events {
		out[k] = pathEvent{Kind: ev.Kind, ID: ev.ID, Value: ev.Value}
		if ev.e != nil {
			if v, ok := ev.e.tryEval(m); ok {
				switch v := v.(type) {
				case bool:
					out[k].Value = fmt.Sprint(v)
				case *big.Int:
					out[k].Value = v.String()
				case *big.Rat:
					out[k].Value = v.RatString()
				}
			} else {
				out[k].Value = "?"
			}
		}
	}
	return out
}

// Summary helpers -----------------------------------------------------------

func (ex *Explorer) TotalAborted() int {
	n := 0
	for _, v := range ex.St.Aborted {
		n += v
	}
	return n
}

func (ex *Explorer) SortedAbortDetails() []string {
	var ks []string
	for k, n := range ex.St.AbortDetail {
		ks = append(ks, fmt.Sprintf("%6d  %s", n, k))
	}
	sort.Sort(sort.Reverse(sort.StringSlice(ks)))
	return ks
}

func (ex *Explorer) PrintSummary(w *os.File) {
	st := &ex.St
	fmt.Fprintf(w, "harness %s: paths=%d panic_paths=%d aborted=%v branches=%d (both=%d unknown=%d) queries=%d solver=%.1fs maxq=%.2fs wall=%.1fs steps=%d maxdec=%d truncated=%v init_cpu=%.1fs\n",
		ex.hname, st.Paths, st.PanicPaths, st.Aborted, st.Branches, st.BranchesBoth, st.UnknownBranch, st.SolverQueries,
		st.SolverTime.Seconds(), st.SolverMaxQuery.Seconds(), st.Wall.Seconds(), st.Steps, st.MaxDecisions, ex.Truncated, st.InitTime.Seconds())
	var ids []string
	for id := range st.Asserts {
		ids = append(ids, id)
	}
	sort.Strings(ids)
	for _, id := range ids {
		a := st.Asserts[id]
		fmt.Fprintf(w, "  assert %-28s reached=%d folded=%d discharged=%d violations=%d known=%d inconclusive=%d\n", id, a.Reached, a.Folded, a.Discharged, a.Violations, a.Known, a.Inconclusive)
	}
	var rs []string
	for id, n := range st.Reach {
		rs = append(rs, fmt.Sprintf("%s=%d", id, n))
	}
	sort.Strings(rs)
	fmt.Fprintf(w, "  reach: %s\n", strings.Join(rs, " "))
	for _, l := range ex.SortedAbortDetails() {
		fmt.Fprintf(w, "  abort %s\n", l)
	}
	for _, e := range st.InternalErrors {
		fmt.Fprintf(w, "  INTERNAL: %s\n", e)
	}
}
