//go:build verif

package cty

// C04 (operation methods and constructors) — marks never change results, top-level operand marks reach the result,
// set constructors hoist member marks, no mark is invented.

func init() {
	verifRegister("verifC04Ops", verifC04Ops)
	verifRegister("verifC04Collections", verifC04Collections)
	verifRegister("verifC04SetVal", verifC04SetVal)
	verifRegister("verifC04Refine", verifC04Refine)
}

// verifC04Refine: refining a marked value (unknown, already refined, or known) keeps its marks and computes what
// refining the unmarked value computes.
func verifC04Refine() {
	var base Value
	switch vChoice("base", 6) {
	case 0:
		base = UnknownVal(Number)
	case 1:
		base = UnknownVal(Number).Refine().NumberRangeLowerBound(NumberIntVal(vInt("lo0", -2, 2)), vBool("inc0")).NewValue()
	case 2:
		base = NumberIntVal(vInt("k", -2, 2))
	case 3:
		base = UnknownVal(String).Refine().StringPrefixFull("a").NewValue()
	case 4:
		base = UnknownVal(List(String)).Refine().CollectionLengthLowerBound(1).NewValue()
	default:
		base = UnknownVal(Object(map[string]Type{"a": String})).RefineNotNull()
	}
	marked := c04Marked("v", base, "m1", "m2")
	call := vChoice("call", 3)
	hi, hiinc, ln, pfx := vInt("hi", -2, 3), vBool("hiinc"), int(vInt("len", 0, 3)), vStr("p", 1, 'a', 'b')
	refine := func(v Value) Value {
		b := v.Refine()
		switch call {
		case 0:
			b = b.NotNull()
		case 1:
			if v.Type() == Number {
				b = b.NumberRangeUpperBound(NumberIntVal(hi), hiinc)
			} else if v.Type().IsCollectionType() {
				b = b.CollectionLengthUpperBound(ln)
			} else if v.Type() == String {
				b = b.StringPrefixFull(pfx)
			} else {
				b = b.NotNull()
			}
		}
		return b.NewValue()
	}
	c04Compare(func(a []Value) Value { return refine(a[0]) }, []Value{marked}, []Value{marked})
}

var c04MarkNames = []string{"m1", "m2", "m3"}

// c04Marked applies each of the three marks to v under a symbolic flag.
func c04Marked(tag string, v Value, names ...string) Value {
	if len(names) == 0 {
		names = c04MarkNames
	}
	for _, m := range names {
		if vBool(tag + "-" + m) {
			v = v.Mark(m)
		}
	}
	return v
}

func c04DeepMarks(v Value) ValueMarks {
	out := ValueMarks{}
	_, pvm := v.UnmarkDeepWithPaths()
	for _, pm := range pvm {
		for m := range pm.Marks {
			out[m] = struct{}{}
		}
	}
	return out
}

func c04Subset(a, b ValueMarks) bool {
	for m := range a {
		if _, ok := b[m]; !ok {
			return false
		}
	}
	return true
}

func c04Union(vs ...Value) (top, deep ValueMarks) {
	top, deep = ValueMarks{}, ValueMarks{}
	for _, v := range vs {
		for m := range v.Marks() {
			top[m] = struct{}{}
		}
		for m := range c04DeepMarks(v) {
			deep[m] = struct{}{}
		}
	}
	return
}

// c04Scalar: a number, bool or string operand that is known (symbolic leaf), null or unknown (possibly refined).
func c04Scalar(tag string, ty Type) Value { return c04ScalarM(tag, ty, 4) }

// c04ScalarM limits the operand to the first modes of (known, null, unknown, unknown not null).
func c04ScalarM(tag string, ty Type, modes int) Value {
	switch vChoice(tag+"-mode", modes) {
	case 1:
		return NullVal(ty)
	case 2:
		return UnknownVal(ty)
	case 3:
		return UnknownVal(ty).RefineNotNull()
	}
	switch ty {
	case Number:
		return NumberIntVal(vInt(tag, -4, 4))
	case Bool:
		return BoolVal(vBool(tag))
	}
	return StringVal(vStr(tag, 1, 'a', 'b'))
}

// c04Compare: the marked and the unmarked run agree, and the marks of the marked result are right.
func c04Compare(op func(args []Value) Value, args []Value, topOperands []Value) {
	plain := make([]Value, len(args))
	for i, a := range args {
		plain[i], _ = a.UnmarkDeep()
	}
	var rm, ru Value
	pm := vExpectPanic(func() { rm = op(args) })
	pu := vExpectPanic(func() { ru = op(plain) })
	vLog("args=%#v rm=%#v ru=%#v pm=%v pu=%v", args, rm, ru, pm, pu)
	vAssert("same-outcome-with-and-without-marks", pm == pu)
	if pm || pu {
		vReach("end-panic")
		return
	}
	rmPlain, _ := rm.UnmarkDeep()
	vAssert("same-result-with-and-without-marks", rmPlain.RawEquals(ru))
	vAssert("unmarked-operands-give-unmarked-result", !ru.ContainsMarked())
	top, _ := c04Union(topOperands...)
	_, deep := c04Union(args...)
	vAssert("top-level-operand-marks-on-result", c04Subset(top, rm.Marks()))
	vAssert("no-mark-invented", c04Subset(c04DeepMarks(rm), deep))
	vReach("end-ok")
}

// verifC04Ops: unary and binary operation methods on scalar operands.
func verifC04Ops() {
	type opDef struct {
		ty    Type
		arity int
		f     func(a []Value) Value
	}
	ops := []opDef{
		{Number, 2, func(a []Value) Value { return a[0].Add(a[1]) }},
		{Number, 2, func(a []Value) Value { return a[0].Subtract(a[1]) }},
		{Number, 2, func(a []Value) Value { return a[0].Multiply(a[1]) }},
		{Number, 2, func(a []Value) Value { return a[0].Divide(a[1]) }},
		{Number, 2, func(a []Value) Value { return a[0].Modulo(a[1]) }},
		{Number, 1, func(a []Value) Value { return a[0].Negate() }},
		{Number, 1, func(a []Value) Value { return a[0].Absolute() }},
		{Number, 2, func(a []Value) Value { return a[0].LessThan(a[1]) }},
		{Number, 2, func(a []Value) Value { return a[0].GreaterThan(a[1]) }},
		{Number, 2, func(a []Value) Value { return a[0].LessThanOrEqualTo(a[1]) }},
		{Number, 2, func(a []Value) Value { return a[0].GreaterThanOrEqualTo(a[1]) }},
		{Number, 2, func(a []Value) Value { return a[0].Equals(a[1]) }},
		{Number, 2, func(a []Value) Value { return a[0].NotEqual(a[1]) }},
		{String, 2, func(a []Value) Value { return a[0].Equals(a[1]) }},
		{Bool, 2, func(a []Value) Value { return a[0].And(a[1]) }},
		{Bool, 2, func(a []Value) Value { return a[0].Or(a[1]) }},
		{Bool, 1, func(a []Value) Value { return a[0].Not() }},
		{Bool, 2, func(a []Value) Value { return a[0].Equals(a[1]) }},
	}
	op := ops[vChoice("op", len(ops))]
	args := make([]Value, op.arity)
	for i := range args {
		args[i] = c04Marked("a"+string(rune('0'+i)), c04Scalar("v"+string(rune('0'+i)), op.ty))
	}
	c04Compare(op.f, args, args)
}

// verifC04Collections: operations on collections and structures whose members may be marked too.
func verifC04Collections() {
	kind := vChoice("kind", 5)
	var coll Value
	// quick: one candidate mark per position; thorough: overlapping candidate sets
	e0m, e1m, cm, km := []string{"m1"}, []string{"m9"}, []string{"m3"}, []string{"m2"}
	if vTier() > 0 {
		e1m, cm, km = []string{"m2"}, []string{"m1", "m3"}, []string{"m2", "m3"}
	}
	restModes := 1 + 3*vTier()
	mk := func(tag string) Value { return c04Marked(tag, c04Scalar(tag+"v", String), e0m...) }
	mk1 := func(tag string) Value { return c04Marked(tag, c04ScalarM(tag+"v", String, restModes), e1m...) }
	switch kind {
	case 0:
		coll = ListVal([]Value{mk("e0"), mk1("e1")})
	case 1:
		coll = TupleVal([]Value{mk("e0"), c04Marked("e1", c04ScalarM("e1v", Number, restModes), e1m...)})
	case 2:
		coll = MapVal(map[string]Value{"a": mk("e0"), "b": mk1("e1")})
	case 3:
		coll = ObjectVal(map[string]Value{"a": mk("e0"), "b": c04Marked("e1", c04ScalarM("e1v", Bool, restModes), e1m...)})
	default:
		coll = SetVal([]Value{mk("e0"), mk1("e1")})
	}
	coll = c04Marked("c", coll, cm...)
	var key Value
	if kind <= 1 {
		key = c04ScalarM("k", Number, 2+2*vTier())
	} else {
		key = c04ScalarM("k", String, 2+2*vTier())
	}
	key = c04Marked("kmark", key, km...)
	switch vChoice("op", 8) {
	case 0:
		c04Compare(func(a []Value) Value { return a[0].Index(a[1]) }, []Value{coll, key}, []Value{coll, key})
	case 1:
		c04Compare(func(a []Value) Value { return a[0].HasIndex(a[1]) }, []Value{coll, key}, []Value{coll, key})
	case 2:
		c04Compare(func(a []Value) Value { return a[0].Length() }, []Value{coll}, []Value{coll})
	case 3:
		c04Compare(func(a []Value) Value { return a[0].GetAttr("a") }, []Value{coll}, []Value{coll})
	case 4:
		elem := c04Marked("hmark", c04ScalarM("h", String, restModes), km...)
		c04Compare(func(a []Value) Value { return a[0].HasElement(a[1]) }, []Value{coll, elem}, []Value{coll, elem})
	case 5:
		other := c04Marked("o", ListVal([]Value{c04ScalarM("o0", String, restModes), c04ScalarM("o1", String, 1)}), km...)
		c04Compare(func(a []Value) Value { return a[0].Equals(a[1]) }, []Value{coll, other}, []Value{coll, other})
	case 6:
		c04Compare(func(a []Value) Value { return a[0].Equals(a[1]) }, []Value{coll, coll}, []Value{coll})
	default:
		c04Compare(func(a []Value) Value { return a[0].NotEqual(a[1]) }, []Value{coll, coll}, []Value{coll})
	}
}

// verifC04SetVal: marks on the members given to a set constructor move to the set; nothing else changes.
func verifC04SetVal() {
	n := 1 + vChoice("n", 2+vTier())
	shape := vChoice("shape", 2)
	elems := make([]Value, n)
	plain := make([]Value, n)
	for i := range elems {
		tag := "e" + string(rune('0'+i))
		names := []string{c04MarkNames[i]}
		if vTier() > 0 {
			names = c04MarkNames[:2]
		}
		var v Value
		if shape == 0 {
			v = c04ScalarM(tag+"v", String, 1+3*vTier())
		} else {
			v = ListVal([]Value{c04Marked(tag+"in", c04ScalarM(tag+"v", String, 1+2*vTier()), "m3")})
		}
		elems[i] = c04Marked(tag, v, names...)
		plain[i], _ = elems[i].UnmarkDeep()
	}
	var sm, su Value
	pm := vExpectPanic(func() { sm = SetVal(elems) })
	pu := vExpectPanic(func() { su = SetVal(plain) })
	vAssert("same-outcome-with-and-without-marks", pm == pu)
	if pm || pu {
		return
	}
	_, deep := c04Union(elems...)
	vAssert("member-marks-move-to-the-set", c04Subset(deep, sm.Marks()))
	vAssert("no-mark-invented", c04Subset(c04DeepMarks(sm), deep))
	smPlain, smMarks := sm.Unmark()
	vAssert("set-members-are-unmarked", !smPlain.ContainsMarked())
	vAssert("same-set-with-and-without-marks", smPlain.RawEquals(su))
	vAssert("exactly-the-member-marks", c04Subset(smMarks, deep))
	vReach("end")
}
