//go:build verif

package cty

// C19 — Walk, Transform and paths address exactly the members of a value; path sets behave as sets of paths.

func init() {
	verifRegister("verifC19Walk", verifC19Walk)
	verifRegister("verifC19Transform", verifC19Transform)
	verifRegister("verifC19Apply", verifC19Apply)
	verifRegister("verifC19PathSet", verifC19PathSet)
}

func c19Gen() *gvGen {
	return &gvGen{width: 1 + vTier(), special: 1, marks: 1, sets: true}
}

type c19Visit struct {
	path Path
	val  Value
}

// c19Find returns the index of the model node addressed by path, or -1.
func c19Find(nodes []*gvNode, p Path) int {
	for i, n := range nodes {
		if gvSamePath(n.path(), p) {
			return i
		}
	}
	return -1
}

func c19Index(nodes []*gvNode, n *gvNode) int {
	for i, x := range nodes {
		if x == n {
			return i
		}
	}
	return -1
}

func c19SameModuloMarks(a, b Value) bool {
	ap, _ := a.UnmarkDeep()
	bp, _ := b.UnmarkDeep()
	return ap.RawEquals(bp)
}

func c19Subset(a, b ValueMarks) bool {
	for m := range a {
		if _, ok := b[m]; !ok {
			return false
		}
	}
	return true
}

// verifC19Walk: Walk visits every member exactly once, parents first, and reports paths that lead back to the member.
func verifC19Walk() {
	g := c19Gen()
	ty := g.typ("t", 2)
	root := g.value("v", ty)
	nodes := root.flatten(nil)
	var visits []c19Visit
	var err error
	vAssert("walk-no-panic", !vExpectPanic(func() {
		err = Walk(root.val, func(p Path, v Value) (bool, error) {
			visits = append(visits, c19Visit{p.Copy(), v})
			return true, nil
		})
	}))
	vAssert("walk-no-error", err == nil)
	vAssert("visits-every-member-once", len(visits) == len(nodes))
	seen := make([]int, len(nodes))
	for order, vis := range visits {
		i := c19Find(nodes, vis.path)
		vAssert("visited-path-names-a-member", i >= 0)
		if i < 0 {
			continue
		}
		vAssert("member-visited-once", seen[i] == 0)
		seen[i] = order + 1
		n := nodes[i]
		vAssert("visited-value-is-the-member", vis.val.RawEquals(n.val) || (n.inSet && c19SameModuloMarks(vis.val, n.val)))
		if n.parent != nil {
			pi := c19Index(nodes, n.parent)
			vAssert("parent-visited-first", seen[pi] != 0 && seen[pi] < order+1)
		}
		if !n.throughSet() {
			var got Value
			var aerr error
			vAssert("apply-no-panic", !vExpectPanic(func() { got, aerr = vis.path.Apply(root.val) }))
			vAssert("reported-path-applies", aerr == nil)
			if aerr == nil {
				vAssert("reported-path-returns-the-member", c19SameModuloMarks(got, vis.val))
				vAssert("applied-member-keeps-its-marks", c19Subset(vis.val.Marks(), got.Marks()))
			}
		}
	}
	// Walk without descending visits only the root
	n := 0
	Walk(root.val, func(p Path, v Value) (bool, error) { n++; return false, nil })
	vAssert("no-descent-visits-root-only", n == 1)
	vReach("end")
}

// c19Rebuild reconstructs the value of the model with node target replaced by repl.
func c19Rebuild(n, target *gvNode, repl Value) Value {
	if n == target {
		return repl
	}
	if n.leaf || len(n.kids) == 0 {
		return n.val
	}
	raw, marks := n.val.Unmark()
	ty := raw.Type()
	var out Value
	switch {
	case ty.IsListType() || ty.IsTupleType() || ty.IsSetType():
		vals := make([]Value, len(n.kids))
		for i, k := range n.kids {
			vals[i] = c19Rebuild(k, target, repl)
		}
		switch {
		case ty.IsListType():
			out = ListVal(vals)
		case ty.IsSetType():
			out = SetVal(vals)
		default:
			out = TupleVal(vals)
		}
	default:
		vals := map[string]Value{}
		for _, k := range n.kids {
			name := ""
			switch s := k.step.(type) {
			case GetAttrStep:
				name = s.Name
			case IndexStep:
				name = s.Key.AsString()
			}
			vals[name] = c19Rebuild(k, target, repl)
		}
		if ty.IsMapType() {
			out = MapVal(vals)
		} else {
			out = ObjectVal(vals)
		}
	}
	return out.WithMarks(marks)
}

// verifC19Transform: identity transformation, same paths as Walk, single-member replacement, mark paths round trip.
func verifC19Transform() {
	g := c19Gen()
	ty := g.typ("t", 2)
	root := g.value("v", ty)
	nodes := root.flatten(nil)

	var tpaths []Path
	var out Value
	var err error
	vAssert("transform-no-panic", !vExpectPanic(func() {
		out, err = Transform(root.val, func(p Path, v Value) (Value, error) {
			tpaths = append(tpaths, p.Copy())
			return v, nil
		})
	}))
	vAssert("identity-transform-succeeds", err == nil)
	if err == nil {
		vAssert("identity-transform-returns-equal-value", out.RawEquals(root.val))
	}
	vAssert("transform-visits-every-member-once", len(tpaths) == len(nodes))
	seen := make([]bool, len(nodes))
	for _, p := range tpaths {
		i := c19Find(nodes, p)
		vAssert("transformed-path-names-a-member", i >= 0)
		if i >= 0 {
			vAssert("member-transformed-once", !seen[i])
			seen[i] = true
		}
	}

	// replace one member (not inside a set, where replacing may merge members)
	ti := vChoice("target", len(nodes))
	target := nodes[ti]
	if !target.throughSet() {
		tu, _ := target.val.Unmark()
		repl := UnknownVal(tu.Type())
		if tu.Type() == String {
			repl = StringVal("zz")
		}
		tpath := target.path()
		var out2 Value
		var err2 error
		vAssert("replace-no-panic", !vExpectPanic(func() {
			out2, err2 = Transform(root.val, func(p Path, v Value) (Value, error) {
				if gvSamePath(p, tpath) {
					return repl, nil
				}
				return v, nil
			})
		}))
		vAssert("replace-succeeds", err2 == nil)
		if err2 == nil {
			want := c19Rebuild(root, target, repl)
			vLog("root=%#v target=%#v out2=%#v want=%#v", root.val, tpath, out2, want)
			vAssert("replacement-changes-exactly-that-member", out2.RawEquals(want))
		}
	}

	// marks: strip with paths, re-apply by path
	var stripped, restored Value
	var pvm []PathValueMarks
	vAssert("mark-paths-no-panic", !vExpectPanic(func() {
		stripped, pvm = root.val.UnmarkDeepWithPaths()
		restored = stripped.MarkWithPaths(pvm)
	}))
	vAssert("stripped-value-has-no-marks", !stripped.ContainsMarked())
	vAssert("marks-restored-by-path", restored.RawEquals(root.val))
	plain, _ := root.val.UnmarkDeep()
	vAssert("stripped-equals-unmarkdeep", stripped.RawEquals(plain))
	vReach("end")
}

// c19Key: an index key of any flavour.
func c19Key(tag string) Value {
	var k Value
	switch vChoice(tag+"-kind", 8) {
	case 0:
		k = NumberIntVal(vInt(tag, -1, 3))
	case 1:
		k = NumberFloatVal(0.5)
	case 2:
		k = StringVal(vStr(tag, 1, 'a', 'c'))
	case 3:
		k = UnknownVal(Number)
	case 4:
		k = UnknownVal(String)
	case 5:
		k = NullVal(Number)
	case 6:
		k = NullVal(String)
	default:
		k = BoolVal(true)
	}
	if vTier() > 0 && vChoice(tag+"-mark", 2) == 1 {
		k = k.Mark("k")
	}
	return k
}

// c19StepSpec follows one step in the model. It returns: the node reached (nil if none is pinned down), whether the
// step must succeed, and whether it must fail. A step over an unknown container or with an unknown key must succeed
// (with an unknown result) when the kinds fit; it addresses no particular member.
func c19StepSpec(n *gvNode, cur Value, step PathStep) (next *gvNode, mustOK, mustFail bool) {
	raw, _ := cur.Unmark()
	if raw.IsNull() {
		return nil, false, true
	}
	ty := raw.Type()
	switch s := step.(type) {
	case GetAttrStep:
		if !ty.IsObjectType() || !ty.HasAttribute(s.Name) {
			return nil, false, true
		}
		if n != nil {
			for _, k := range n.kids {
				if gs, ok := k.step.(GetAttrStep); ok && gs.Name == s.Name {
					return k, true, false
				}
			}
		}
		return nil, true, false
	case IndexStep:
		key, _ := s.Key.Unmark()
		switch key.Type() {
		case Number:
			if !ty.IsListType() && !ty.IsTupleType() {
				return nil, false, true
			}
		case String:
			if !ty.IsMapType() {
				return nil, false, true
			}
		default:
			return nil, false, true
		}
		if key.IsNull() {
			return nil, false, true
		}
		if !key.IsKnown() || !raw.IsKnown() {
			return nil, true, false
		}
		if n != nil {
			for _, k := range n.kids {
				if is, ok := k.step.(IndexStep); ok && is.Key.RawEquals(key) {
					return k, true, false
				}
			}
		}
		return nil, false, true
	}
	return nil, false, true
}

// verifC19Apply: Path.Apply succeeds exactly when every step names an existing member, and never panics.
func verifC19Apply() {
	g := &gvGen{width: 1 + vTier(), special: 1, marks: vTier(), sets: false}
	ty := g.typ("t", 1+vTier())
	root := g.value("v", ty)
	var path Path
	if vChoice("pathmode", 2) == 0 {
		// arbitrary steps
		nsteps := 1 + vChoice("nsteps", 2)
		path = make(Path, nsteps)
		for i := range path {
			if vChoice("s"+string(rune('0'+i))+"-attr", 2) == 0 {
				path[i] = GetAttrStep{Name: vStr("name", 1, 'a', 'c')}
			} else {
				path[i] = IndexStep{Key: c19Key("k" + string(rune('0'+i)))}
			}
		}
	} else {
		// the path of an existing member, its last step replaced by a symbolic one of the same kind
		nodes := root.flatten(nil)
		vAssume(len(nodes) > 1)
		n := nodes[1+vChoice("member", len(nodes)-1)]
		path = n.path()
		switch last := path[len(path)-1].(type) {
		case GetAttrStep:
			path[len(path)-1] = GetAttrStep{Name: vStr("name", 1, 'a', 'c')}
		case IndexStep:
			if last.Key.Type() == Number {
				path[len(path)-1] = IndexStep{Key: NumberIntVal(vInt("ix", -1, 3))}
			} else {
				path[len(path)-1] = IndexStep{Key: StringVal(vStr("key", 1, 'a', 'c'))}
			}
		}
	}
	var got Value
	var err error
	vLog("root=%#v path=%#v", root.val, path)
	vAssert("apply-no-panic", !vExpectPanic(func() { got, err = path.Apply(root.val) }))
	vLog("got=%#v err=%v", got, err)
	// the specification, step by step
	node, cur := root, root.val
	decided := true
	for _, step := range path {
		next, mustOK, mustFail := c19StepSpec(node, cur, step)
		if mustFail {
			vAssert("missing-member-is-an-error", err != nil)
			vReach("end-fail")
			return
		}
		if !mustOK {
			decided = false
			break
		}
		if next == nil {
			// an unknown member of the right kind: the remaining steps apply to an unknown value
			var e2 error
			cur, e2 = step.Apply(cur)
			if e2 != nil {
				decided = false
				break
			}
			node = nil
			continue
		}
		node, cur = next, next.val
	}
	if decided {
		vAssert("existing-member-is-found", err == nil)
		if err == nil && node != nil {
			vAssert("apply-returns-the-member", c19SameModuloMarks(got, node.val))
			vAssert("applied-member-keeps-its-marks", c19Subset(node.val.Marks(), got.Marks()))
		}
		vReach("end-ok")
	}
}

// ---------- path sets ----------

func c19Path(tag string) Path {
	shape := vChoice(tag+"-shape", 2+4*vTier())
	attr := func(t string) PathStep { return GetAttrStep{Name: vStr(t, 1, 'a', 'b')} }
	num := func(t string) PathStep { return IndexStep{Key: NumberIntVal(vInt(t, 0, 1))} }
	str := func(t string) PathStep { return IndexStep{Key: StringVal(vStr(t, 1, 'a', 'b'))} }
	switch shape {
	case 0:
		return Path{attr(tag + "0")}
	case 1:
		return Path{num(tag + "0")}
	case 2:
		return Path{str(tag + "0")}
	case 3:
		return Path{attr(tag + "0"), num(tag + "1")}
	case 4:
		return Path{str(tag + "0"), attr(tag + "1")}
	}
	return Path{num(tag + "0"), str(tag + "1")}
}

// verifC19PathSet: a history of path-set operations over a universe of symbolic (possibly equal) paths against a
// boolean-per-path model closed under path equality.
func verifC19PathSet() {
	const U = 3
	paths := make([]Path, U)
	for i := range paths {
		paths[i] = c19Path("p" + string(rune('0'+i)))
	}
	var eq [U][U]bool
	for i := 0; i < U; i++ {
		for j := 0; j < U; j++ {
			eq[i][j] = gvSamePath(paths[i], paths[j])
		}
	}
	// three live sets: results of the algebra go to a slot of their own (or replace an operand), so that a result
	// sharing storage with an operand is noticed when either is changed afterwards
	const S = 3
	sets := []PathSet{NewPathSet(), NewPathSet(), NewPathSet()}
	var in [S][U]bool
	check := func() {
		for k := range sets {
			classes := 0
			for i := 0; i < U; i++ {
				vAssert("has-agrees-with-model", sets[k].Has(paths[i]) == in[k][i])
				if in[k][i] {
					first := true
					for j := 0; j < i; j++ {
						if in[k][j] && eq[i][j] {
							first = false
						}
					}
					if first {
						classes++
					}
				}
			}
			vAssert("list-has-one-entry-per-distinct-path", len(sets[k].List()) == classes)
			vAssert("empty-iff-no-member", sets[k].Empty() == (classes == 0))
		}
		for a := 0; a < S; a++ {
			for b := a + 1; b < S; b++ {
				same := true
				for i := 0; i < U; i++ {
					if in[a][i] != in[b][i] {
						same = false
					}
				}
				vAssert("equal-agrees-with-model", sets[a].Equal(sets[b]) == same && sets[b].Equal(sets[a]) == same)
			}
		}
	}
	steps := 2 + vTier()
	for s := 0; s < steps; s++ {
		op := vChoice("op", 6)
		if op <= 1 {
			k := vChoice("set", S)
			i := vChoice("path", U)
			if op == 0 {
				sets[k].Add(paths[i])
			} else {
				sets[k].Remove(paths[i])
			}
			for j := 0; j < U; j++ {
				if eq[i][j] {
					in[k][j] = op == 0
				}
			}
		} else {
			a, b := vChoice("lhs", 2), vChoice("rhs", 2)
			dst := 2
			if vChoice("dst", 2) == 1 {
				dst = a
			}
			var r PathSet
			var m [U]bool
			for j := 0; j < U; j++ {
				switch op {
				case 2:
					m[j] = in[a][j] || in[b][j]
				case 3:
					m[j] = in[a][j] && in[b][j]
				case 4:
					m[j] = in[a][j] && !in[b][j]
				default:
					m[j] = in[a][j] != in[b][j]
				}
			}
			switch op {
			case 2:
				r = sets[a].Union(sets[b])
			case 3:
				r = sets[a].Intersection(sets[b])
			case 4:
				r = sets[a].Subtract(sets[b])
			default:
				r = sets[a].SymmetricDifference(sets[b])
			}
			sets[dst], in[dst] = r, m
		}
		check()
	}
	vReach("end")
}
