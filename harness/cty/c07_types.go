//go:build verif

package cty

// C07 — type equality, conformance, HasDynamicTypes and optional-attribute stripping against an independent structural
// descriptor of each generated type. (JSON serialisation of types is outside the technique's reach: encoding/json.)

import (
	"reflect"
)

func init() {
	verifRegister("verifC07Pairs", verifC07Pairs)
	verifRegister("verifC07Mutant", verifC07Mutant)
	verifRegister("verifC07Triples", verifC07Triples)
	verifRegister("verifC07OptionalSets", verifC07OptionalSets)
}

// verifC07OptionalSets: two object types with the same three attributes whose optional flags are symbolic, possibly
// wrapped in a list, map, set, tuple or object: equal exactly when the flags agree attribute by attribute.
func verifC07OptionalSets() {
	names := []string{"a", "b", "c"}
	mk := func(tag string) (Type, *c07Desc) {
		ats := map[string]Type{}
		var opts []string
		d := &c07Desc{kind: c07Object}
		for _, n := range names {
			ats[n] = String
			opt := vBool(tag + "-" + n)
			if opt {
				opts = append(opts, n)
			}
			d.members = append(d.members, c07Member{name: n, d: &c07Desc{kind: c07String}, optional: opt})
		}
		return ObjectWithOptionalAttrs(ats, opts), d
	}
	t1, d1 := mk("x")
	t2, d2 := mk("y")
	switch vChoice("wrap", 6) {
	case 1:
		t1, t2 = List(t1), List(t2)
		d1, d2 = &c07Desc{kind: c07List, elem: d1}, &c07Desc{kind: c07List, elem: d2}
	case 2:
		t1, t2 = Map(t1), Map(t2)
		d1, d2 = &c07Desc{kind: c07Map, elem: d1}, &c07Desc{kind: c07Map, elem: d2}
	case 3:
		t1, t2 = Set(t1), Set(t2)
		d1, d2 = &c07Desc{kind: c07Set, elem: d1}, &c07Desc{kind: c07Set, elem: d2}
	case 4:
		t1, t2 = Tuple([]Type{Bool, t1}), Tuple([]Type{Bool, t2})
		d1 = &c07Desc{kind: c07Tuple, members: []c07Member{{d: &c07Desc{kind: c07Bool}}, {d: d1}}}
		d2 = &c07Desc{kind: c07Tuple, members: []c07Member{{d: &c07Desc{kind: c07Bool}}, {d: d2}}}
	case 5:
		t1, t2 = Object(map[string]Type{"o": t1}), Object(map[string]Type{"o": t2})
		d1 = &c07Desc{kind: c07Object, members: []c07Member{{name: "o", d: d1}}}
		d2 = &c07Desc{kind: c07Object, members: []c07Member{{name: "o", d: d2}}}
	}
	c07Single(t1, d1)
	c07Pair(t1, d1, t2, d2)
	vReach("end")
}

const (
	c07String = iota
	c07Number
	c07Bool
	c07Dynamic
	c07Capsule
	c07List
	c07Set
	c07Map
	c07Tuple
	c07Object
)

type c07Member struct {
	name     string // attribute name (objects)
	d        *c07Desc
	optional bool
}

type c07Desc struct {
	kind    int
	capsule int
	elem    *c07Desc
	members []c07Member
}

var c07Capsules = []Type{Capsule("c0", reflect.TypeOf(0)), Capsule("c1", reflect.TypeOf(0))}

type c07Gen struct {
	width   int
	symName bool // attribute names are symbolic one-byte strings over {a,b,c}
}

// gen produces a type through the public constructors together with its descriptor.
func (g *c07Gen) gen(tag string, depth int) (Type, *c07Desc) {
	n := 5
	if depth > 0 {
		n = 10
	}
	k := vChoice(tag+"-kind", n)
	switch k {
	case c07String:
		return String, &c07Desc{kind: k}
	case c07Number:
		return Number, &c07Desc{kind: k}
	case c07Bool:
		return Bool, &c07Desc{kind: k}
	case c07Dynamic:
		return DynamicPseudoType, &c07Desc{kind: k}
	case c07Capsule:
		c := vChoice(tag+"-caps", 2)
		return c07Capsules[c], &c07Desc{kind: k, capsule: c}
	case c07List, c07Set, c07Map:
		et, ed := g.gen(tag+"e", depth-1)
		d := &c07Desc{kind: k, elem: ed}
		switch k {
		case c07List:
			return List(et), d
		case c07Set:
			return Set(et), d
		}
		return Map(et), d
	case c07Tuple:
		ln := vChoice(tag+"-tlen", g.width+1)
		d := &c07Desc{kind: k}
		ts := make([]Type, ln)
		for i := range ts {
			var md *c07Desc
			ts[i], md = g.gen(tag+string(rune('0'+i)), depth-1)
			d.members = append(d.members, c07Member{d: md})
		}
		return Tuple(ts), d
	default:
		ln := vChoice(tag+"-olen", g.width+1)
		d := &c07Desc{kind: c07Object}
		ats := map[string]Type{}
		var opts []string
		for i := 0; i < ln; i++ {
			var name string
			if g.symName {
				name = vStr(tag+"-name", 1, 'a', 'c')
				for _, m := range d.members {
					vAssume(m.name != name)
				}
			} else {
				name = string(rune('a' + i))
			}
			at, ad := g.gen(tag+"a"+string(rune('0'+i)), depth-1)
			opt := vBool(tag + "-opt")
			ats[name] = at
			if opt {
				opts = append(opts, name)
			}
			d.members = append(d.members, c07Member{name: name, d: ad, optional: opt})
		}
		if len(opts) > 0 {
			return ObjectWithOptionalAttrs(ats, opts), d
		}
		return Object(ats), d
	}
}

func (d *c07Desc) member(name string) *c07Member {
	for i := range d.members {
		if d.members[i].name == name {
			return &d.members[i]
		}
	}
	return nil
}

// c07Equal: identical descriptors (optional flags included when withOpt).
func c07Equal(a, b *c07Desc, withOpt bool) bool {
	if a.kind != b.kind {
		return false
	}
	switch a.kind {
	case c07Capsule:
		return a.capsule == b.capsule
	case c07List, c07Set, c07Map:
		return c07Equal(a.elem, b.elem, withOpt)
	case c07Tuple:
		if len(a.members) != len(b.members) {
			return false
		}
		for i := range a.members {
			if !c07Equal(a.members[i].d, b.members[i].d, withOpt) {
				return false
			}
		}
	case c07Object:
		if len(a.members) != len(b.members) {
			return false
		}
		for _, am := range a.members {
			bm := b.member(am.name)
			if bm == nil || !c07Equal(am.d, bm.d, withOpt) || (withOpt && am.optional != bm.optional) {
				return false
			}
		}
	}
	return true
}

// c07Conforms: given equals want, disregarding optional annotations, after replacing each placeholder in want by the
// corresponding part of given.
func c07Conforms(given, want *c07Desc) bool {
	if want.kind == c07Dynamic {
		return true
	}
	if given.kind != want.kind {
		return false
	}
	switch given.kind {
	case c07Capsule:
		return given.capsule == want.capsule
	case c07List, c07Set, c07Map:
		return c07Conforms(given.elem, want.elem)
	case c07Tuple:
		if len(given.members) != len(want.members) {
			return false
		}
		for i := range given.members {
			if !c07Conforms(given.members[i].d, want.members[i].d) {
				return false
			}
		}
	case c07Object:
		if len(given.members) != len(want.members) {
			return false
		}
		for _, gm := range given.members {
			wm := want.member(gm.name)
			if wm == nil || !c07Conforms(gm.d, wm.d) {
				return false
			}
		}
	}
	return true
}

func c07HasDyn(d *c07Desc) bool {
	switch d.kind {
	case c07Dynamic:
		return true
	case c07List, c07Set, c07Map:
		return c07HasDyn(d.elem)
	}
	for _, m := range d.members {
		if c07HasDyn(m.d) {
			return true
		}
	}
	return false
}

func c07HasOpt(d *c07Desc) bool {
	if d.elem != nil && c07HasOpt(d.elem) {
		return true
	}
	for _, m := range d.members {
		if m.optional || c07HasOpt(m.d) {
			return true
		}
	}
	return false
}

// c07Matches: the type t, inspected through its accessors, has exactly the structure of d (optional flags cleared
// when stripped).
func c07Matches(t Type, d *c07Desc, stripped bool) bool {
	switch d.kind {
	case c07String:
		return t == String
	case c07Number:
		return t == Number
	case c07Bool:
		return t == Bool
	case c07Dynamic:
		return t == DynamicPseudoType
	case c07Capsule:
		return t.IsCapsuleType() && t == c07Capsules[d.capsule]
	case c07List:
		return t.IsListType() && c07Matches(t.ElementType(), d.elem, stripped)
	case c07Set:
		return t.IsSetType() && c07Matches(t.ElementType(), d.elem, stripped)
	case c07Map:
		return t.IsMapType() && c07Matches(t.ElementType(), d.elem, stripped)
	case c07Tuple:
		if !t.IsTupleType() || t.Length() != len(d.members) {
			return false
		}
		for i, m := range d.members {
			if !c07Matches(t.TupleElementType(i), m.d, stripped) {
				return false
			}
		}
		return true
	}
	if !t.IsObjectType() || len(t.AttributeTypes()) != len(d.members) {
		return false
	}
	for _, m := range d.members {
		if !t.HasAttribute(m.name) || !c07Matches(t.AttributeType(m.name), m.d, stripped) {
			return false
		}
		if t.AttributeOptional(m.name) != (m.optional && !stripped) {
			return false
		}
	}
	return true
}

func c07Single(t Type, d *c07Desc) {
	vAssert("equals-reflexive", t.Equals(t))
	vAssert("accessors-match-descriptor", c07Matches(t, d, false))
	vAssert("has-dynamic-types-iff-placeholder-inside", t.HasDynamicTypes() == c07HasDyn(d))
	var s Type
	vAssert("strip-no-panic", !vExpectPanic(func() { s = t.WithoutOptionalAttributesDeep() }))
	vAssert("strip-clears-only-optional-flags", c07Matches(s, d, true))
	vAssert("strip-idempotent", s.WithoutOptionalAttributesDeep().Equals(s))
	vAssert("strip-is-identity-without-annotations", c07HasOpt(d) || s.Equals(t))
	vAssert("conforms-to-itself", len(t.TestConformance(t)) == 0)
	vAssert("conforms-to-stripped-self", len(t.TestConformance(s)) == 0 && len(s.TestConformance(t)) == 0)
	vAssert("conforms-to-placeholder", len(t.TestConformance(DynamicPseudoType)) == 0)
}

func c07Pair(t1 Type, d1 *c07Desc, t2 Type, d2 *c07Desc) {
	eq := c07Equal(d1, d2, true)
	var e12, e21 bool
	vAssert("equals-no-panic", !vExpectPanic(func() { e12, e21 = t1.Equals(t2), t2.Equals(t1) }))
	vAssert("equals-symmetric", e12 == e21)
	vAssert("equals-iff-same-structure", e12 == eq)
	var c12, c21 []error
	vAssert("conformance-no-panic", !vExpectPanic(func() { c12, c21 = t1.TestConformance(t2), t2.TestConformance(t1) }))
	vAssert("conforms-iff-model-conforms", (len(c12) == 0) == c07Conforms(d1, d2))
	vAssert("conforms-iff-model-conforms-reverse", (len(c21) == 0) == c07Conforms(d2, d1))
	vAssert("nil-iff-no-errors", (c12 == nil) == (len(c12) == 0) && (c21 == nil) == (len(c21) == 0))
	if eq {
		vAssert("equal-types-conform", len(c12) == 0 && len(c21) == 0)
	}
	s1, s2 := t1.WithoutOptionalAttributesDeep(), t2.WithoutOptionalAttributesDeep()
	vAssert("stripped-equal-iff-same-structure-modulo-annotations", s1.Equals(s2) == c07Equal(d1, d2, false))
}

// verifC07Pairs: two independently generated types.
func verifC07Pairs() {
	vMapOrder(true)
	g := &c07Gen{width: 1 + vTier(), symName: true}
	t1, d1 := g.gen("x", 1)
	g.width = 1
	t2, d2 := g.gen("y", 1)
	c07Single(t1, d1)
	c07Pair(t1, d1, t2, d2)
	vReach("end")
}

// mutate returns a copy of the type that differs in exactly one position (chosen by the harness), with its descriptor.
func (g *c07Gen) mutate(tag string, t Type, d *c07Desc) (Type, *c07Desc) {
	here := d.elem == nil && len(d.members) == 0
	if !here {
		here = vChoice(tag+"-here", 2) == 0
	}
	if !here {
		switch d.kind {
		case c07List, c07Set, c07Map:
			et, ed := g.mutate(tag+"e", t.ElementType(), d.elem)
			nd := &c07Desc{kind: d.kind, elem: ed}
			switch d.kind {
			case c07List:
				return List(et), nd
			case c07Set:
				return Set(et), nd
			}
			return Map(et), nd
		case c07Tuple:
			i := vChoice(tag+"-ix", len(d.members))
			ts := append([]Type{}, t.TupleElementTypes()...)
			nd := &c07Desc{kind: c07Tuple, members: append([]c07Member{}, d.members...)}
			var md *c07Desc
			ts[i], md = g.mutate(tag+"m", ts[i], d.members[i].d)
			nd.members[i] = c07Member{d: md}
			return Tuple(ts), nd
		default:
			i := vChoice(tag+"-ix", len(d.members))
			nd := &c07Desc{kind: c07Object, members: append([]c07Member{}, d.members...)}
			ats := map[string]Type{}
			var opts []string
			for k, m := range d.members {
				at := t.AttributeType(m.name)
				if k == i {
					var md *c07Desc
					at, md = g.mutate(tag+"m", at, m.d)
					nd.members[k] = c07Member{name: m.name, d: md, optional: m.optional}
				}
				ats[m.name] = at
				if m.optional {
					opts = append(opts, m.name)
				}
			}
			return ObjectWithOptionalAttrs(ats, opts), nd
		}
	}
	// change this node
	switch d.kind {
	case c07String, c07Number, c07Bool, c07Dynamic:
		k := (d.kind + 1 + vChoice(tag+"-to", 3)) % 4
		return []Type{String, Number, Bool, DynamicPseudoType}[k], &c07Desc{kind: k}
	case c07Capsule:
		return c07Capsules[1-d.capsule], &c07Desc{kind: c07Capsule, capsule: 1 - d.capsule}
	case c07List, c07Set, c07Map:
		k := c07List + (d.kind-c07List+1+vChoice(tag+"-to", 2))%3
		nd := &c07Desc{kind: k, elem: d.elem}
		switch k {
		case c07List:
			return List(t.ElementType()), nd
		case c07Set:
			return Set(t.ElementType()), nd
		}
		return Map(t.ElementType()), nd
	case c07Tuple:
		ts := append([]Type{}, t.TupleElementTypes()...)
		nd := &c07Desc{kind: c07Tuple, members: append([]c07Member{}, d.members...)}
		switch vChoice(tag+"-tmut", 3) {
		case 0: // one more element
			ts = append(ts, String)
			nd.members = append(nd.members, c07Member{d: &c07Desc{kind: c07String}})
		case 1: // one fewer
			vAssume(len(ts) > 0)
			ts = ts[:len(ts)-1]
			nd.members = nd.members[:len(nd.members)-1]
		default: // swapped order (different only if the two differ)
			vAssume(len(ts) == 2 && !c07Equal(d.members[0].d, d.members[1].d, true))
			ts[0], ts[1] = ts[1], ts[0]
			nd.members[0], nd.members[1] = nd.members[1], nd.members[0]
		}
		return Tuple(ts), nd
	}
	nd := &c07Desc{kind: c07Object, members: append([]c07Member{}, d.members...)}
	ats := map[string]Type{}
	var opts []string
	mut := vChoice(tag+"-omut", 4)
	for k, m := range d.members {
		name, opt := m.name, m.optional
		if k == 0 {
			switch mut {
			case 0: // flip the optional flag of the first attribute
				opt = !opt
			case 1: // rename it
				name = "z"
			case 2: // drop it
				continue
			}
		}
		nd.members[k] = c07Member{name: name, d: m.d, optional: opt}
		ats[name] = t.AttributeType(m.name)
		if opt {
			opts = append(opts, name)
		}
	}
	switch mut {
	case 0, 1:
		vAssume(len(d.members) > 0)
	case 2:
		vAssume(len(d.members) > 0)
		nd.members = nd.members[1:]
	default: // extra attribute
		ats["z"] = Bool
		nd.members = append(nd.members, c07Member{name: "z", d: &c07Desc{kind: c07Bool}})
	}
	return ObjectWithOptionalAttrs(ats, opts), nd
}

// verifC07Mutant: a depth-2 type and a copy that differs in exactly one position.
func verifC07Mutant() {
	vMapOrder(true)
	g := &c07Gen{width: 1 + vTier()}
	t1, d1 := g.gen("x", 2)
	t2, d2 := g.mutate("m", t1, d1)
	vAssert("single-difference-is-unequal", !t1.Equals(t2) && !t2.Equals(t1))
	c07Single(t1, d1)
	c07Single(t2, d2)
	c07Pair(t1, d1, t2, d2)
	vReach("end")
}

// verifC07Triples: transitivity of equality and conformance consistency on triples.
func verifC07Triples() {
	g := &c07Gen{width: 1, symName: true}
	depth := vTier()
	t1, d1 := g.gen("x", depth)
	t2, d2 := g.gen("y", depth)
	t3, d3 := g.gen("z", depth)
	e12, e23, e13 := t1.Equals(t2), t2.Equals(t3), t1.Equals(t3)
	vAssert("equals-transitive", !(e12 && e23) || e13)
	vAssert("equals-matches-model", e12 == c07Equal(d1, d2, true) && e23 == c07Equal(d2, d3, true) && e13 == c07Equal(d1, d3, true))
	if e12 {
		vAssert("equal-types-conform-alike", (len(t1.TestConformance(t3)) == 0) == (len(t2.TestConformance(t3)) == 0))
		vAssert("equal-constraints-accept-alike", (len(t3.TestConformance(t1)) == 0) == (len(t3.TestConformance(t2)) == 0))
	}
	vReach("end")
}
