//go:build verif

package gocty

// C18 — Go-value bridging is exact or refuses (scalar and pointer targets; the engine's reflect covers those).

import (
	"math"
	"math/big"

	"github.com/zclconf/go-cty/cty"
)

func init() {
	verifRegister("verifC18Int", verifC18Int)
	verifRegister("verifC18Float", verifC18Float)
	verifRegister("verifC18Other", verifC18Other)
	verifRegister("verifC18RoundTrip", verifC18RoundTrip)
}

// c18Num: a symbolic number from one of four families, with the facts the oracle needs:
//   whole    — it is an integer
//   fitsI64  — whole and within int64; i64 is then its value
//   fitsU64  — whole and within uint64; u64 is then its value
type c18Num struct {
	v       cty.Value
	whole   bool
	fitsI64 bool
	i64     int64
	fitsU64 bool
	u64     uint64
	inf     bool
}

func c18Number(tag string) c18Num {
	switch vChoice(tag+"-family", 5) {
	case 0: // every int64
		k := vInt(tag, math.MinInt64, math.MaxInt64)
		return c18Num{v: cty.NumberIntVal(k), whole: true, fitsI64: true, i64: k, fitsU64: k >= 0, u64: uint64(k)}
	case 1: // k + 2^63: every value in [0, 2^64)
		k := vInt(tag, math.MinInt64, math.MaxInt64)
		f := new(big.Float).SetPrec(512).SetInt64(k)
		f.Add(f, new(big.Float).SetPrec(512).SetUint64(1<<63))
		return c18Num{v: cty.NumberVal(f), whole: true, fitsI64: k < 0, i64: int64(uint64(k) + 1<<63), fitsU64: true, u64: uint64(k) + 1<<63}
	case 2: // quarters: fractional values
		k := vInt(tag, -(1 << 40), 1<<40)
		f := new(big.Float).SetPrec(512).SetInt64(k)
		f.Quo(f, big.NewFloat(4))
		return c18Num{v: cty.NumberVal(f), whole: k%4 == 0, fitsI64: k%4 == 0, i64: k / 4, fitsU64: k%4 == 0 && k >= 0, u64: uint64(k / 4)}
	case 3: // beyond 64 bits: (k + 2^63) + 2^64, and its negation
		k := vInt(tag, math.MinInt64, math.MaxInt64)
		f := new(big.Float).SetPrec(512).SetInt64(k)
		f.Add(f, new(big.Float).SetPrec(512).SetUint64(1<<63))
		f.Add(f, new(big.Float).SetPrec(512).SetUint64(1<<63))
		f.Add(f, new(big.Float).SetPrec(512).SetUint64(1<<63))
		if vBool(tag + "-neg") {
			f.Neg(f)
		}
		return c18Num{v: cty.NumberVal(f), whole: true}
	}
	if vBool(tag + "-neg") {
		return c18Num{v: cty.NegativeInfinity, inf: true}
	}
	return c18Num{v: cty.PositiveInfinity, inf: true}
}

// verifC18Int: number -> every integer width: accepted exactly when whole and in range, and then stored exactly.
func verifC18Int() {
	n := c18Number("n")
	kind := vChoice("kind", 10)
	var err error
	var gotI int64
	var gotU uint64
	var minI, maxI int64
	var maxU uint64
	signed := kind < 5
	p := vExpectPanic(func() {
		switch kind {
		case 0:
			var t int8
			err = FromCtyValue(n.v, &t)
			gotI, minI, maxI = int64(t), math.MinInt8, math.MaxInt8
		case 1:
			var t int16
			err = FromCtyValue(n.v, &t)
			gotI, minI, maxI = int64(t), math.MinInt16, math.MaxInt16
		case 2:
			var t int32
			err = FromCtyValue(n.v, &t)
			gotI, minI, maxI = int64(t), math.MinInt32, math.MaxInt32
		case 3:
			var t int64
			err = FromCtyValue(n.v, &t)
			gotI, minI, maxI = t, math.MinInt64, math.MaxInt64
		case 4:
			var t int
			err = FromCtyValue(n.v, &t)
			gotI, minI, maxI = int64(t), math.MinInt64, math.MaxInt64
		case 5:
			var t uint8
			err = FromCtyValue(n.v, &t)
			gotU, maxU = uint64(t), math.MaxUint8
		case 6:
			var t uint16
			err = FromCtyValue(n.v, &t)
			gotU, maxU = uint64(t), math.MaxUint16
		case 7:
			var t uint32
			err = FromCtyValue(n.v, &t)
			gotU, maxU = uint64(t), math.MaxUint32
		case 8:
			var t uint64
			err = FromCtyValue(n.v, &t)
			gotU, maxU = t, math.MaxUint64
		default:
			var t uint
			err = FromCtyValue(n.v, &t)
			gotU, maxU = uint64(t), math.MaxUint64
		}
	})
	vAssert("no-panic", !p)
	if p {
		return
	}
	if signed {
		fits := vAnd(n.fitsI64, vAnd(n.i64 >= minI, n.i64 <= maxI))
		vAssert("int-accepted-iff-whole-and-in-range", (err == nil) == fits)
		if err == nil {
			vAssert("int-stored-exactly", gotI == n.i64)
		}
	} else {
		fits := vAnd(n.fitsU64, n.u64 <= maxU)
		vAssert("uint-accepted-iff-whole-and-in-range", (err == nil) == fits)
		if err == nil {
			vAssert("uint-stored-exactly", gotU == n.u64)
		}
	}
	vReach("end")
}

var c18Floats = []float64{0, 1, -2.5, 0.1, 16777217, 1e38, 3.4028234663852886e38, 3.4028235677973366e38, 3.5e38, -3.5e38, 1e300, -1e300,
	math.MaxFloat64, 1e-46, 1e-320, math.Inf(1), math.Inf(-1)}

// verifC18Float: number -> float64 / float32 on a menu of boundary values (float arithmetic is concrete in the
// engine): accepted exactly when the value is infinite or within the target's finite range; then correctly rounded.
func verifC18Float() {
	x := c18Floats[vChoice("x", len(c18Floats))]
	var v cty.Value
	if vChoice("exact", 2) == 0 {
		v = cty.NumberFloatVal(x)
	} else {
		// a number just above the float (not representable): x * (1 + 2^-80)
		f := new(big.Float).SetPrec(512).SetFloat64(x)
		if !f.IsInf() {
			g := new(big.Float).SetPrec(512).Quo(big.NewFloat(1), big.NewFloat(1208925819614629174706176)) // 2^-80
			g.Add(g, big.NewFloat(1))
			f.Mul(f, g)
		}
		v = cty.NumberVal(f)
	}
	bf := v.AsBigFloat()
	if vChoice("target", 2) == 0 {
		var t float64
		err := FromCtyValue(v, &t)
		want, _ := bf.Float64()
		inRange := bf.IsInf() || !math.IsInf(want, 0)
		vAssert("float64-accepted-iff-in-range", (err == nil) == inRange)
		if err == nil {
			vAssert("float64-correctly-rounded", t == want)
		}
	} else {
		var t float32
		err := FromCtyValue(v, &t)
		want, _ := bf.Float32()
		inRange := bf.IsInf() || !math.IsInf(float64(want), 0)
		vAssert("float32-accepted-iff-in-range", (err == nil) == inRange)
		if err == nil {
			vAssert("float32-no-silent-infinity", bf.IsInf() || !math.IsInf(float64(t), 0))
			vAssert("float32-is-a-rounding-of-the-value", t == want || t == float32(func() float64 { f, _ := bf.Float64(); return f }()))
		}
	}
	vReach("end")
}

// verifC18Other: bools, strings, pointers, null, unknown, wrong types.
func verifC18Other() {
	var src cty.Value
	srcKind := vChoice("src", 8)
	b, s := vBool("b"), vStr("s", vChoice("slen", 3), 'a', 'c')
	k := vInt("k", -3, 3)
	switch srcKind {
	case 0:
		src = cty.BoolVal(b)
	case 1:
		src = cty.StringVal(s)
	case 2:
		src = cty.NumberIntVal(k)
	case 3:
		src = cty.NullVal(cty.String)
	case 4:
		src = cty.NullVal(cty.Number)
	case 5:
		src = cty.UnknownVal(cty.String)
	case 6:
		src = cty.UnknownVal(cty.Number)
	default:
		src = cty.DynamicVal
	}
	isNull, isUnknown := srcKind == 3 || srcKind == 4, srcKind >= 5
	var err error
	target := vChoice("target", 7)
	p := vExpectPanic(func() {
		switch target {
		case 0:
			var t bool
			err = FromCtyValue(src, &t)
			vAssert("bool-accepted-iff-known-bool", (err == nil) == (srcKind == 0))
			if err == nil {
				vAssert("bool-stored", t == b)
			}
		case 1:
			var t string
			err = FromCtyValue(src, &t)
			vAssert("string-accepted-iff-known-string", (err == nil) == (srcKind == 1))
			if err == nil {
				vAssert("string-stored", t == s)
			}
		case 2:
			var t int
			err = FromCtyValue(src, &t)
			vAssert("int-accepted-iff-known-number", (err == nil) == (srcKind == 2))
			if err == nil {
				vAssert("int-stored", int64(t) == k)
			}
		case 3:
			t := new(string)
			*t = "preset"
			tp := &t
			err = FromCtyValue(src, tp)
			switch {
			case srcKind == 1:
				vAssert("ptr-string-accepted", err == nil && t != nil && *t == s)
			case srcKind == 3:
				vAssert("null-into-pointer-is-nil", err == nil && t == nil)
			default:
				vAssert("ptr-string-rejects-others", err != nil || srcKind == 4)
			}
		case 4:
			var t *int
			err = FromCtyValue(src, &t)
			switch {
			case srcKind == 2:
				vAssert("ptr-int-accepted-and-allocated", err == nil && t != nil && int64(*t) == k)
			case isNull:
				vAssert("null-into-pointer-is-nil", err == nil && t == nil)
			default:
				vAssert("ptr-int-rejects-others", err != nil)
			}
		case 5:
			var t **bool
			err = FromCtyValue(src, &t)
			switch {
			case srcKind == 0:
				vAssert("ptr-ptr-bool-accepted", err == nil && t != nil && *t != nil && **t == b)
			case isNull:
				vAssert("null-into-pointer-chain-is-nil-at-the-end", err == nil && (t == nil || *t == nil))
			default:
				vAssert("ptr-ptr-bool-rejects-others", err != nil)
			}
		default:
			var t cty.Value
			err = FromCtyValue(src, &t)
			vAssert("cty-value-target-passes-through", err == nil && t.RawEquals(src))
		}
	})
	vAssert("no-panic", !p)
	if isUnknown && target < 6 {
		vAssert("unknown-is-refused", err != nil)
	}
	if isNull && target <= 2 {
		vAssert("null-into-non-pointer-is-refused", err != nil)
	}
	vReach("end")
}

// verifC18RoundTrip: Go scalar -> cty (implied type) -> Go scalar reproduces the value for every width.
func verifC18RoundTrip() {
	kind := vChoice("kind", 9)
	var in interface{}
	k := vInt("k", math.MinInt64, math.MaxInt64)
	switch kind {
	case 0:
		in = int8(k)
	case 1:
		in = int16(k)
	case 2:
		in = int32(k)
	case 3:
		in = k
	case 4:
		in = uint8(k)
	case 5:
		in = uint32(k)
	case 6:
		in = uint64(k)
	case 7:
		in = vBool("b")
	default:
		in = vStr("s", 2, 'a', 'c')
	}
	var ty cty.Type
	var v cty.Value
	var err error
	p := vExpectPanic(func() {
		ty, err = ImpliedType(in)
		if err == nil {
			v, err = ToCtyValue(in, ty)
		}
	})
	vAssert("to-cty-no-panic", !p)
	vAssert("to-cty-succeeds", err == nil)
	if p || err != nil {
		return
	}
	vAssert("value-has-implied-type", v.Type().Equals(ty) && v.IsKnown() && !v.IsNull())
	switch x := in.(type) {
	case int8:
		var out int8
		vAssert("roundtrip", FromCtyValue(v, &out) == nil && out == x)
	case int16:
		var out int16
		vAssert("roundtrip", FromCtyValue(v, &out) == nil && out == x)
	case int32:
		var out int32
		vAssert("roundtrip", FromCtyValue(v, &out) == nil && out == x)
	case int64:
		var out int64
		vAssert("roundtrip", FromCtyValue(v, &out) == nil && out == x)
	case uint8:
		var out uint8
		vAssert("roundtrip", FromCtyValue(v, &out) == nil && out == x)
	case uint32:
		var out uint32
		vAssert("roundtrip", FromCtyValue(v, &out) == nil && out == x)
	case uint64:
		var out uint64
		vAssert("roundtrip", FromCtyValue(v, &out) == nil && out == x)
	case bool:
		var out bool
		vAssert("roundtrip", FromCtyValue(v, &out) == nil && out == x)
	case string:
		var out string
		vAssert("roundtrip", FromCtyValue(v, &out) == nil && out == x)
	}
	vReach("end")
}
