//go:build verif

package stdlib

// C11 — standard functions are total and their predicted types are sound.
//
// A generic driver: for every function in the table the argument list is generated from the function's own declared
// parameters (Params / VarParam): each argument is a structural choice among conforming values of the parameter's
// type constraint (numbers symbolic: any quarter-integer, the int64 extremes, numbers just beyond int64, infinities;
// collections with null / unknown / marked members), a null, an unknown, DynamicVal, a null of the placeholder type,
// a marked value and a value of the wrong type. Asserted on every feasible path: no Go panic escapes, no PanicError
// comes back; when the call succeeds the result's type conforms to ReturnType(argument types) whenever that prediction
// exists and to ReturnTypeForValues(arguments), and when all arguments are wholly known the type-only prediction
// did not reject the call.

import (
	"github.com/zclconf/go-cty/cty"
	"github.com/zclconf/go-cty/cty/function"
)

func init() {
	verifRegister("verifC11Numbers", verifC11Numbers)
	verifRegister("verifC11Collections1", verifC11Collections1)
	verifRegister("verifC11Collections2", verifC11Collections2)
	verifRegister("verifC11Collections3", verifC11Collections3)
	verifRegister("verifC11Variadic", verifC11Variadic)
	verifRegister("verifC11Sets", verifC11Sets)
	verifRegister("verifC11Strings", verifC11Strings)
	verifRegister("verifC11Conversion", verifC11Conversion)
	verifRegister("verifC11Range", verifC11Range)
	verifRegister("verifC11General", verifC11General)
	verifRegister("verifC11LibraryBound", verifC11LibraryBound)
}

type c11Fn struct {
	name string
	f    function.Function
	rng  int64 // range of symbolic quarter-integers for numeric arguments (0: the default 2^34)
}

// c11NumRange is the numerator range of symbolic numbers for the function being driven.
var c11NumRange int64 = 1 << 34

var c11Numbers = []c11Fn{
	{"abs", AbsoluteFunc, 0}, {"add", AddFunc, 0}, {"subtract", SubtractFunc, 0}, {"multiply", MultiplyFunc, 0}, {"divide", DivideFunc, 0},
	{"modulo", ModuloFunc, 0}, {"greaterthan", GreaterThanFunc, 0}, {"greaterthanorequalto", GreaterThanOrEqualToFunc, 0},
	{"lessthan", LessThanFunc, 0}, {"lessthanorequalto", LessThanOrEqualToFunc, 0}, {"negate", NegateFunc, 0}, {"min", MinFunc, 0},
	{"max", MaxFunc, 0}, {"int", IntFunc, 0}, {"ceil", CeilFunc, 0}, {"floor", FloorFunc, 0}, {"signum", SignumFunc, 0},
	{"not", NotFunc, 0}, {"and", AndFunc, 0}, {"or", OrFunc, 0}, {"byteslen", BytesLenFunc, 0}, {"bytesslice", BytesSliceFunc, 0},
}

// functions whose known-argument path needs a library the engine cannot follow: driven only with argument forms that
// are decided before that library is reached (null, unknown, dynamic, marked unknown, wrong type)
var c11LibraryBound = []c11Fn{
	{"regex", RegexFunc, 0}, {"regexall", RegexAllFunc, 0}, {"regexreplace", RegexReplaceFunc, 0}, {"chomp", ChompFunc, 0},
	{"format", FormatFunc, 0}, {"formatlist", FormatListFunc, 0}, {"formatdate", FormatDateFunc, 0}, {"timeadd", TimeAddFunc, 0},
	{"jsonencode", JSONEncodeFunc, 0}, {"jsondecode", JSONDecodeFunc, 0}, {"csvdecode", CSVDecodeFunc, 0},
	{"log", LogFunc, 0}, {"pow", PowFunc, 0}, {"parseint", ParseIntFunc, 0},
}

// c11SpecialOnly: generate only the argument forms that do not carry a known value of the right type
var c11SpecialOnly = false

var c11General = []c11Fn{{"equal", EqualFunc, 0}, {"notequal", NotEqualFunc, 0}}

// range loops once per generated member: its numeric arguments come from a concrete menu
var c11Range = []c11Fn{{"range", RangeFunc, 0}}

var c11ConcreteNumbers = false

// c11Slim: third and later arguments in the quick tier use the first variants of each sub-menu only
var c11Slim = false

func c11Sub(n int) int {
	if c11Slim && n > 3 {
		return 3
	}
	return n
}

func c11Number(tag string) cty.Value {
	if c11Slim {
		return cty.NumberIntVal(3)
	}
	if !c11ConcreteNumbers {
		return sNumber(tag+"-n", c11NumRange).v
	}
	switch vChoice(tag+"-cn", 7) {
	case 0:
		return cty.NumberIntVal(0)
	case 1:
		return cty.NumberIntVal(3)
	case 2:
		return cty.NumberFloatVal(-2.5)
	case 3:
		return cty.PositiveInfinity
	case 4:
		return cty.NegativeInfinity
	case 5:
		return cty.NumberIntVal(-1)
	}
	return cty.NumberFloatVal(0.5)
}

var c11Collections1 = []c11Fn{
	{"length", LengthFunc, 0}, {"element", ElementFunc, 0}, {"hasindex", HasIndexFunc, 0}, {"index", IndexFunc, 0},
	{"compact", CompactFunc, 0}, {"distinct", DistinctFunc, 0}, {"flatten", FlattenFunc, 0}, {"keys", KeysFunc, 0},
	{"values", ValuesFunc, 0}, {"reverse", ReverseListFunc, 0}, {"chunklist", ChunklistFunc, 0}, {"sort", SortFunc, 0},
}

var c11Collections2 = []c11Fn{
	{"contains", ContainsFunc, 0}, {"zipmap", ZipmapFunc, 0}, {"slice", SliceFunc, 0},
}

var c11Collections3 = []c11Fn{
	{"lookup", LookupFunc, 0},
}

var c11Variadic = []c11Fn{
	{"coalesce", CoalesceFunc, 0}, {"coalescelist", CoalesceListFunc, 0}, {"merge", MergeFunc, 0}, {"concat", ConcatFunc, 0},
	{"setproduct", SetProductFunc, 0},
}

var c11Sets = []c11Fn{
	{"sethaselement", SetHasElementFunc, 0}, {"setunion", SetUnionFunc, 0}, {"setintersection", SetIntersectionFunc, 0},
	{"setsubtract", SetSubtractFunc, 0}, {"setsymmetricdifference", SetSymmetricDifferenceFunc, 0},
}

var c11Strings = []c11Fn{
	{"upper", UpperFunc, 0}, {"lower", LowerFunc, 0}, {"reverse", ReverseFunc, 0}, {"strlen", StrlenFunc, 0}, {"substr", SubstrFunc, 0},
	{"join", JoinFunc, 0}, {"split", SplitFunc, 0}, {"indent", IndentFunc, 12} /* the count sizes an allocation: -3..3 symbolic, extremes from the menu */, {"title", TitleFunc, 0}, {"trimspace", TrimSpaceFunc, 0},
	{"trim", TrimFunc, 0}, {"trimprefix", TrimPrefixFunc, 0}, {"trimsuffix", TrimSuffixFunc, 0}, {"replace", ReplaceFunc, 0},
	{"assertnotnull", AssertNotNullFunc, 0},
}

const c11Mark = "m"

// c11Special: the special forms every argument position can take, whatever its type constraint.
// Returns ok=false when k does not name a special.
func c11Special(k int, ty cty.Type) (cty.Value, bool) {
	concrete := ty
	if ty.HasDynamicTypes() {
		concrete = cty.List(cty.Number)
		if ty.IsSetType() {
			concrete = cty.Set(cty.Number)
		}
		if ty == cty.DynamicPseudoType {
			concrete = cty.String
		}
	}
	switch k {
	case 0:
		return cty.NullVal(concrete), true
	case 1:
		return cty.UnknownVal(concrete), true
	case 2:
		return cty.DynamicVal, true
	case 3:
		return cty.NullVal(cty.DynamicPseudoType), true
	case 4:
		return cty.UnknownVal(concrete).Mark(c11Mark), true
	}
	return cty.NilVal, false
}

const c11Specials = 5

func c11NumList(tag string) cty.Value {
	switch vChoice(tag+"-nl", c11Sub(7)) {
	case 0:
		return cty.ListValEmpty(cty.Number)
	case 1:
		return cty.ListVal([]cty.Value{cty.NumberIntVal(1), cty.NumberIntVal(2)})
	case 2:
		return cty.ListVal([]cty.Value{cty.NumberIntVal(1), cty.NullVal(cty.Number)})
	case 3:
		return cty.ListVal([]cty.Value{cty.UnknownVal(cty.Number), cty.NumberIntVal(2)})
	case 4:
		return cty.ListVal([]cty.Value{cty.NumberIntVal(1), cty.NumberIntVal(2).Mark(c11Mark)})
	case 5:
		return cty.ListVal([]cty.Value{cty.NumberIntVal(1), cty.NumberIntVal(1)}).Mark(c11Mark)
	}
	return cty.UnknownVal(cty.List(cty.Number)).Refine().CollectionLengthLowerBound(1).CollectionLengthUpperBound(2).NewValue()
}

func c11StrList(tag string) cty.Value {
	switch vChoice(tag+"-sl", c11Sub(7)) {
	case 0:
		return cty.ListValEmpty(cty.String)
	case 1:
		return cty.ListVal([]cty.Value{cty.StringVal("b"), cty.StringVal("a")})
	case 2:
		return cty.ListVal([]cty.Value{cty.StringVal("a"), cty.NullVal(cty.String)})
	case 3:
		return cty.ListVal([]cty.Value{cty.UnknownVal(cty.String), cty.StringVal("")})
	case 4:
		return cty.ListVal([]cty.Value{cty.StringVal("a"), cty.StringVal("a").Mark(c11Mark)})
	case 5:
		return cty.ListVal([]cty.Value{cty.StringVal("")}).Mark(c11Mark)
	}
	return cty.ListVal([]cty.Value{cty.StringVal("a"), cty.StringVal("b"), cty.StringVal("c")})
}

func c11NumSet(tag string) cty.Value {
	switch vChoice(tag+"-ns", c11Sub(6)) {
	case 0:
		return cty.SetValEmpty(cty.Number)
	case 1:
		return cty.SetVal([]cty.Value{cty.NumberIntVal(1), cty.NumberIntVal(2)})
	case 2:
		return cty.SetVal([]cty.Value{cty.NumberIntVal(1), cty.NullVal(cty.Number)})
	case 3:
		return cty.SetVal([]cty.Value{cty.UnknownVal(cty.Number), cty.NumberIntVal(2)})
	case 4:
		return cty.SetValEmpty(cty.DynamicPseudoType)
	}
	return cty.SetVal([]cty.Value{cty.StringVal("1"), cty.StringVal("x")})
}

// c11Any: values for a position whose constraint is the placeholder type.
func c11Any(tag string) cty.Value {
	switch vChoice(tag+"-any", 16) {
	case 0:
		return c11Number(tag)
	case 1:
		return cty.StringVal("a")
	case 2:
		return cty.True
	case 3:
		return c11NumList(tag)
	case 4:
		return c11StrList(tag)
	case 5:
		return cty.TupleVal([]cty.Value{cty.NumberIntVal(1), cty.StringVal("a")})
	case 6:
		return cty.EmptyTupleVal
	case 7:
		return c11NumSet(tag)
	case 8:
		return cty.MapVal(map[string]cty.Value{"a": cty.NumberIntVal(1), "b": cty.NumberIntVal(2)})
	case 9:
		return cty.MapValEmpty(cty.String)
	case 10:
		return cty.ObjectVal(map[string]cty.Value{"a": cty.NumberIntVal(1), "b": cty.StringVal("x")})
	case 11:
		return cty.EmptyObjectVal
	case 12:
		return cty.ListVal([]cty.Value{cty.ListVal([]cty.Value{cty.NumberIntVal(1)}), cty.ListValEmpty(cty.Number)})
	case 13:
		return cty.TupleVal([]cty.Value{cty.NullVal(cty.List(cty.Number)), cty.UnknownVal(cty.List(cty.Number)), cty.DynamicVal})
	case 14:
		return cty.MapVal(map[string]cty.Value{"a": cty.UnknownVal(cty.Number)}).Mark(c11Mark)
	}
	return cty.ObjectVal(map[string]cty.Value{"a": cty.NullVal(cty.DynamicPseudoType), "c": cty.UnknownVal(cty.String).Mark(c11Mark)})
}

// c11Arg generates one argument for a parameter with type constraint ty.
func c11Arg(tag string, ty cty.Type) cty.Value {
	if c11SpecialOnly {
		k := vChoice(tag, c11Specials+1)
		if v, ok := c11Special(k, ty); ok {
			return v
		}
		if ty == cty.String || ty == cty.DynamicPseudoType {
			return cty.NumberIntVal(1).Mark(c11Mark) // wrong type for a string; any value for a placeholder
		}
		return cty.StringVal("x")
	}
	switch {
	case ty == cty.Number:
		k := vChoice(tag, c11Specials+3)
		if v, ok := c11Special(k, ty); ok {
			return v
		}
		switch k - c11Specials {
		case 0:
			return c11Number(tag)
		case 1:
			return cty.NumberIntVal(3).Mark(c11Mark)
		}
		return cty.StringVal("x")
	case ty == cty.String:
		k := vChoice(tag, c11Specials+6)
		if v, ok := c11Special(k, ty); ok {
			return v
		}
		switch k - c11Specials {
		case 0:
			return cty.StringVal("")
		case 1:
			return cty.StringVal("a")
		case 2:
			return cty.StringVal("a b\nab")
		case 3:
			return cty.StringVal("b").Mark(c11Mark)
		case 4:
			return cty.StringVal(" ")
		}
		return cty.NumberIntVal(1)
	case ty == cty.Bool:
		k := vChoice(tag, c11Specials+3)
		if v, ok := c11Special(k, ty); ok {
			return v
		}
		switch k - c11Specials {
		case 0:
			return cty.BoolVal(vBool(tag + "-b"))
		case 1:
			return cty.True.Mark(c11Mark)
		}
		return cty.StringVal("x")
	case ty.Equals(Bytes):
		k := vChoice(tag, c11Specials+2)
		if v, ok := c11Special(k, ty); ok {
			return v
		}
		if k-c11Specials == 0 {
			return BytesVal([]byte("abc"))
		}
		return cty.StringVal("x")
	case ty.IsListType() && ty.ElementType() == cty.String:
		k := vChoice(tag, c11Specials+2)
		if v, ok := c11Special(k, ty); ok {
			return v
		}
		if k-c11Specials == 0 {
			return c11StrList(tag)
		}
		return cty.ListVal([]cty.Value{cty.ListValEmpty(cty.String)}) // not convertible
	case ty.IsListType():
		k := vChoice(tag, c11Specials+4)
		if v, ok := c11Special(k, ty); ok {
			return v
		}
		switch k - c11Specials {
		case 0:
			return c11NumList(tag)
		case 1:
			return c11StrList(tag)
		case 2:
			return cty.ListVal([]cty.Value{cty.ListVal([]cty.Value{cty.NumberIntVal(1)}), cty.ListValEmpty(cty.Number)})
		}
		return cty.MapValEmpty(cty.Number)
	case ty.IsSetType():
		k := vChoice(tag, c11Specials+2)
		if v, ok := c11Special(k, ty); ok {
			return v
		}
		if k-c11Specials == 0 {
			return c11NumSet(tag)
		}
		return cty.ListVal([]cty.Value{cty.NumberIntVal(1)})
	}
	// the placeholder type (or anything else): any value
	k := vChoice(tag, c11Specials+1)
	if v, ok := c11Special(k, ty); ok {
		return v
	}
	return c11Any(tag)
}

func c11IsPanicError(err error) bool {
	_, isPanic := err.(function.PanicError)
	return isPanic
}

// c11Check calls f on args and asserts totality and the agreement of the three type predictions.
func c11Check(f function.Function, args []cty.Value) {
	r, err := f.Call(args)
	vAssert("no-internal-panic-error", !c11IsPanicError(err))
	tys := make([]cty.Type, len(args))
	known := true
	for i, a := range args {
		tys[i] = a.Type()
		if !a.IsWhollyKnown() {
			known = false
		}
	}
	st, serr := f.ReturnType(tys)
	vAssert("type-only-prediction-does-not-panic", !c11IsPanicError(serr))
	vt, verr := f.ReturnTypeForValues(args)
	vAssert("value-prediction-does-not-panic", !c11IsPanicError(verr))
	if err == nil {
		vAssert("value-prediction-exists-when-call-succeeds", verr == nil)
		if verr == nil {
			vAssert("result-conforms-to-value-prediction", r.Type().TestConformance(vt) == nil)
		}
		if serr == nil {
			vAssert("result-conforms-to-type-only-prediction", r.Type().TestConformance(st) == nil)
		}
		if known {
			vAssert("type-only-prediction-accepts-what-evaluation-accepts", serr == nil)
			vAssert("known-arguments-give-known-result", r.IsWhollyKnown())
		}
		vReach("end-ok")
	} else {
		vReach("end-error")
	}
}

func c11Drive(fns []c11Fn, maxVar int) {
	fi := vChoice("fn", len(fns))
	f := fns[fi].f
	c11NumRange = 1 << 34
	if fns[fi].rng != 0 {
		c11NumRange = fns[fi].rng
	}
	params := f.Params()
	vp := f.VarParam()
	nvar := 0
	if vp != nil {
		nvar = vChoice("nvar", maxVar+1) // thorough tier: same counts, full menus at every position
	}
	// an argument list of the wrong length is an ordinary error
	if vChoice("arity", 8) == 0 {
		var args []cty.Value
		if len(params) > 0 && vChoice("short", 2) == 0 {
			for k := 0; k < len(params)-1; k++ {
				args = append(args, cty.DynamicVal)
			}
		} else if vp == nil {
			for k := 0; k < len(params)+1; k++ {
				args = append(args, cty.DynamicVal)
			}
		} else {
			vAssume(false)
		}
		_, err := f.Call(args)
		vAssert("wrong-argument-count-is-ordinary-error", err != nil && !c11IsPanicError(err))
		vReach("end-arity")
		return
	}
	var args []cty.Value
	tags := []string{"a0", "a1", "a2", "a3", "a4"}
	for k, p := range params {
		c11Slim = k >= 2 && vTier() == 0
		args = append(args, c11Arg(tags[k], p.Type))
	}
	for k := 0; k < nvar; k++ {
		c11Slim = len(params)+k >= 2 && vTier() == 0
		args = append(args, c11Arg(tags[len(params)+k], vp.Type))
	}
	c11Slim = false
	// recorded finding: indent() builds its padding with strings.Repeat, which panics when the requested size cannot be
	// allocated at all (counts of 2^47 and more)
	hugeIndent := false
	if fns[fi].name == "indent" && len(args) == 2 && args[0].Type() == cty.Number && args[0].IsKnown() && !args[0].IsNull() && !args[0].IsMarked() {
		hugeIndent = args[0].GreaterThan(cty.NumberIntVal(1 << 47)).True()
	}
	vKnown("F20-indent-unallocatable-padding", hugeIndent)
	c11Check(f, args)
}

// verifC11Conversion: conversion functions built by MakeToFunc for representative target types.
func verifC11Conversion() {
	targets := []cty.Type{cty.String, cty.Number, cty.Bool, cty.List(cty.String), cty.Set(cty.Number), cty.Map(cty.String),
		cty.List(cty.DynamicPseudoType), cty.DynamicPseudoType, cty.Object(map[string]cty.Type{"a": cty.Number})}
	f := MakeToFunc(targets[vChoice("target", len(targets))])
	c11Check(f, []cty.Value{c11Arg("a0", cty.DynamicPseudoType)})
}

func verifC11Numbers() { c11Drive(c11Numbers, 2) }
func verifC11Collections1() { c11Drive(c11Collections1, 2) }
func verifC11Collections2() { c11Drive(c11Collections2, 2) }
func verifC11Collections3() { c11Drive(c11Collections3, 2) }
func verifC11Variadic() { c11Drive(c11Variadic, 2) }
func verifC11Sets() { c11Drive(c11Sets, 2) }
func verifC11Strings() { c11Drive(c11Strings, 2) }

func verifC11Range() {
	c11ConcreteNumbers = true
	c11Drive(c11Range, 3)
}

func verifC11General() { c11Drive(c11General, 2) }

func verifC11LibraryBound() {
	c11SpecialOnly = true
	c11Drive(c11LibraryBound, 2)
}
