//go:build verif

package stdlib

// C13 — collection, set and sequence functions match reference semantics (part 2: membership, duplicates, keys,
// ordering, result type selection). References are plain Go over the same symbolic scalars.

import (
	"math/big"

	"github.com/zclconf/go-cty/cty"
)

func init() {
	verifRegister("verifC13Contains", verifC13Contains)
	verifRegister("verifC13DistinctCompact", verifC13DistinctCompact)
	verifRegister("verifC13Sort", verifC13Sort)
	verifRegister("verifC13ReverseConcat", verifC13ReverseConcat)
	verifRegister("verifC13KeysValues", verifC13KeysValues)
	verifRegister("verifC13Lookup", verifC13Lookup)
	verifRegister("verifC13Merge", verifC13Merge)
	verifRegister("verifC13Zipmap", verifC13Zipmap)
	verifRegister("verifC13Flatten", verifC13Flatten)
	verifRegister("verifC13SetProduct", verifC13SetProduct)
	verifRegister("verifC13SetOps", verifC13SetOps)
	verifRegister("verifC13Coalesce", verifC13Coalesce)
}

// sInt: v is a known non-null whole number; its value.
func sInt(v cty.Value) (int64, bool) {
	if v.Type() != cty.Number || !v.IsKnown() || v.IsNull() {
		return 0, false
	}
	i, acc := v.AsBigFloat().Int64()
	return i, acc == big.Exact
}

func sIsInt(v cty.Value, k int64) bool {
	i, ok := sInt(v)
	return ok && i == k
}

func sIsStr(v cty.Value, s string) bool {
	return v.Type() == cty.String && v.IsKnown() && !v.IsNull() && v.AsString() == s
}

func sIsBool(v cty.Value, b bool) bool {
	return v.Type() == cty.Bool && v.IsKnown() && !v.IsNull() && v.True() == b
}

func sNumList(ks []int64) cty.Value {
	if len(ks) == 0 {
		return cty.ListValEmpty(cty.Number)
	}
	vs := make([]cty.Value, len(ks))
	for i, k := range ks {
		vs[i] = cty.NumberIntVal(k)
	}
	return cty.ListVal(vs)
}

// verifC13Contains: contains(seq, x) for lists, tuples and sets of possibly equal numbers.
func verifC13Contains() {
	n := vChoice("n", 4)
	ks := make([]int64, n)
	vs := make([]cty.Value, n)
	for i := range ks {
		ks[i] = vInt("m", 0, 2)
		vs[i] = cty.NumberIntVal(ks[i])
	}
	x := vInt("x", 0, 3)
	var seq cty.Value
	switch vChoice("kind", 3) {
	case 0:
		seq = sNumList(ks)
	case 1:
		seq = cty.TupleVal(vs)
	default:
		if n == 0 {
			seq = cty.SetValEmpty(cty.Number)
		} else {
			seq = cty.SetVal(vs)
		}
	}
	want := false
	for i := range ks {
		want = vOr(want, ks[i] == x)
	}
	r, err := ContainsFunc.Call([]cty.Value{seq, cty.NumberIntVal(x)})
	vAssert("contains-succeeds", err == nil)
	if err == nil {
		vAssert("contains", sIsBool(r, want))
	}
	// a value of another type is never a member; a map is outside the domain
	r, err = ContainsFunc.Call([]cty.Value{seq, cty.StringVal("zz")})
	if err == nil {
		vAssert("contains-other-type", sIsBool(r, false))
	}
	_, err = ContainsFunc.Call([]cty.Value{cty.MapValEmpty(cty.Number), cty.NumberIntVal(x)})
	vAssert("contains-map-is-error", err != nil)
	vReach("end")
}

// verifC13DistinctCompact: distinct keeps the first occurrence of every value in order; compact drops empty strings.
func verifC13DistinctCompact() {
	n := vChoice("n", 4)
	ks := make([]int64, n)
	for i := range ks {
		ks[i] = vInt("m", 0, 2)
	}
	r, err := DistinctFunc.Call([]cty.Value{sNumList(ks)})
	vAssert("distinct-succeeds", err == nil)
	if err == nil {
		var want []int64
		for i := range ks {
			dup := false
			for j := 0; j < i; j++ {
				if ks[j] == ks[i] {
					dup = true
				}
			}
			if !dup {
				want = append(want, ks[i])
			}
		}
		vAssert("distinct-type", r.Type().Equals(cty.List(cty.Number)) && r.IsKnown() && !r.IsNull())
		vAssert("distinct-length", r.LengthInt() == len(want))
		i := 0
		for it := r.ElementIterator(); it.Next(); i++ {
			_, v := it.Element()
			vAssert("distinct-member", i < len(want) && sIsInt(v, want[i]))
		}
	}

	// compact: strings of length 0 or 1 over {a,b}
	ss := make([]cty.Value, n)
	var wantS []string
	for i := range ss {
		s := vStr("s", vChoice("slen", 2), 'a', 'b')
		ss[i] = cty.StringVal(s)
		if s != "" {
			wantS = append(wantS, s)
		}
	}
	var in cty.Value
	if n == 0 {
		in = cty.ListValEmpty(cty.String)
	} else {
		in = cty.ListVal(ss)
	}
	c, err := CompactFunc.Call([]cty.Value{in})
	vAssert("compact-succeeds", err == nil)
	if err == nil {
		vAssert("compact-type", c.Type().Equals(cty.List(cty.String)) && c.IsKnown() && !c.IsNull())
		vAssert("compact-length", c.LengthInt() == len(wantS))
		i := 0
		for it := c.ElementIterator(); it.Next(); i++ {
			_, v := it.Element()
			vAssert("compact-member", i < len(wantS) && sIsStr(v, wantS[i]))
		}
	}
	vReach("end")
}

// verifC13Sort: sort returns the same multiset of strings in non-decreasing byte order.
func verifC13Sort() {
	n := vChoice("n", 4)
	ss := make([]string, n)
	vs := make([]cty.Value, n)
	for i := range ss {
		// one byte over {a,b,c}, or (second family) 0..2 bytes over {a,b}: prefixes order before their extensions
		if vChoice("slen", 2) == 0 {
			ss[i] = vStr("s", 1, 'a', 'c')
		} else {
			ss[i] = vStr("s", vChoice("slen2", 3), 'a', 'b')
		}
		vs[i] = cty.StringVal(ss[i])
	}
	var in cty.Value
	if n == 0 {
		in = cty.ListValEmpty(cty.String)
	} else {
		in = cty.ListVal(vs)
	}
	r, err := SortFunc.Call([]cty.Value{in})
	vAssert("sort-succeeds", err == nil)
	if err == nil {
		vAssert("sort-type", r.Type().Equals(cty.List(cty.String)) && r.IsKnown() && !r.IsNull())
		vAssert("sort-length", r.LengthInt() == n)
		out := make([]string, 0, n)
		for it := r.ElementIterator(); it.Next(); {
			_, v := it.Element()
			out = append(out, v.AsString())
		}
		for i := 1; i < len(out); i++ {
			vAssert("sort-ordered", out[i-1] <= out[i])
		}
		for _, c := range []string{"", "a", "b", "c", "aa", "ab", "ba", "bb"} {
			ci, co := int64(0), int64(0)
			for i := range ss {
				ci += vIte(ss[i] == c, 1, 0)
			}
			for i := range out {
				co += vIte(out[i] == c, 1, 0)
			}
			vAssert("sort-same-multiset", ci == co)
		}
	}
	vReach("end")
}

// sMixedSeq: a list(number), list(string), tuple or set(number) of n members with distinct concrete content starting
// at base; returns the value and its members in iteration order.
func sMixedSeq(kind, n, base int) (cty.Value, []cty.Value) {
	ms := make([]cty.Value, n)
	for i := range ms {
		switch {
		case kind == 1:
			ms[i] = cty.StringVal(string(rune('a' + base + i)))
		case kind == 2 && i%2 == 1:
			ms[i] = cty.StringVal(string(rune('a' + base + i)))
		default:
			ms[i] = cty.NumberIntVal(int64(base + i))
		}
	}
	switch kind {
	case 0:
		if n == 0 {
			return cty.ListValEmpty(cty.Number), ms
		}
		return cty.ListVal(ms), ms
	case 1:
		if n == 0 {
			return cty.ListValEmpty(cty.String), ms
		}
		return cty.ListVal(ms), ms
	case 2:
		return cty.TupleVal(ms), ms
	}
	if n == 0 {
		return cty.SetValEmpty(cty.Number), ms
	}
	return cty.SetVal(ms), ms // ascending numbers: iteration order is the construction order
}

// verifC13ReverseConcat: reverse gives the members in reverse order (tuple stays a tuple, list and set give a list);
// concat gives all members in argument order: a list when every argument is a list, a tuple otherwise.
func verifC13ReverseConcat() {
	kind := vChoice("kind", 4)
	n := vChoice("n", 4)
	seq, ms := sMixedSeq(kind, n, 10)
	r, err := ReverseListFunc.Call([]cty.Value{seq})
	vAssert("reverse-succeeds", err == nil)
	if err == nil {
		vAssert("reverse-known", r.IsKnown() && !r.IsNull())
		switch kind {
		case 0, 3:
			vAssert("reverse-type", r.Type().Equals(cty.List(cty.Number)))
		case 1:
			vAssert("reverse-type", r.Type().Equals(cty.List(cty.String)))
		default:
			vAssert("reverse-type", r.Type().IsTupleType() && len(r.Type().TupleElementTypes()) == n)
		}
		vAssert("reverse-length", r.LengthInt() == n)
		i := 0
		for it := r.ElementIterator(); it.Next(); i++ {
			_, v := it.Element()
			vAssert("reverse-member", i < n && v.RawEquals(ms[n-1-i]))
		}
	}
	_, err = ReverseListFunc.Call([]cty.Value{cty.MapValEmpty(cty.String)})
	vAssert("reverse-map-is-error", err != nil)

	// concat of 1..3 sequences (lists of numbers, lists of strings, tuples)
	na := 1 + vChoice("nargs", 3)
	var args []cty.Value
	var all []cty.Value
	allLists, anyStrList, anyNumList := true, false, false
	for a := 0; a < na; a++ {
		k := vChoice("akind", 3)
		m := vChoice("alen", 3)
		v, vs := sMixedSeq(k, m, 10*(a+2))
		args = append(args, v)
		all = append(all, vs...)
		if k == 2 {
			allLists = false
		}
		if k == 1 {
			anyStrList = true
		}
		if k == 0 {
			anyNumList = true
		}
	}
	c, err := ConcatFunc.Call(args)
	vAssert("concat-succeeds", err == nil)
	if err == nil {
		vAssert("concat-known", c.IsKnown() && !c.IsNull())
		vAssert("concat-length", c.LengthInt() == len(all))
		if allLists {
			// lists of numbers and lists of strings unify to a list of strings (numbers written in decimal)
			wantEty := cty.Number
			if anyStrList {
				wantEty = cty.String
			}
			vAssert("concat-list-type", c.Type().Equals(cty.List(wantEty)))
			i := 0
			for it := c.ElementIterator(); it.Next(); i++ {
				_, v := it.Element()
				w := all[i]
				if anyStrList && anyNumList && w.Type() == cty.Number {
					k, _ := sInt(w)
					w = cty.StringVal(string(rune('0'+k/10)) + string(rune('0'+k%10)))
				}
				vAssert("concat-list-member", v.RawEquals(w))
			}
		} else {
			vAssert("concat-tuple-type", c.Type().IsTupleType())
			i := 0
			for it := c.ElementIterator(); it.Next(); i++ {
				_, v := it.Element()
				vAssert("concat-tuple-member", v.RawEquals(all[i]))
			}
		}
	}
	_, err = ConcatFunc.Call([]cty.Value{seq, cty.MapValEmpty(cty.String)})
	vAssert("concat-map-is-error", err != nil)
	vReach("end")
}

// sKeyed: a map (of numbers, or of strings when str) or an object built from up to n symbolic one-byte keys; later
// entries overwrite earlier ones with the same key. Returns the value, the keys and the reference Go map (key -> the
// winning member).
func sKeyed(tag string, n int, object bool, base int64, str bool) (cty.Value, []string, map[string]cty.Value) {
	keys := make([]string, n)
	vals := map[string]cty.Value{}
	ref := map[string]cty.Value{}
	for i := 0; i < n; i++ {
		keys[i] = vStr(tag, 1, 'a', 'c')
		var v cty.Value
		if str {
			v = cty.StringVal(string(rune('A' + base + int64(i))))
		} else {
			v = cty.NumberIntVal(base + int64(i))
		}
		vals[keys[i]] = v
		ref[keys[i]] = v
	}
	if object {
		return cty.ObjectVal(vals), keys, ref
	}
	if n == 0 {
		if str {
			return cty.MapValEmpty(cty.String), keys, ref
		}
		return cty.MapValEmpty(cty.Number), keys, ref
	}
	return cty.MapVal(vals), keys, ref
}

// sSortedKeys: the keys of ref in ascending order (keys are single bytes 'a'..'d').
func sSortedKeys(ref map[string]cty.Value) []string {
	var out []string
	for _, c := range []string{"a", "b", "c", "d"} {
		if _, ok := ref[c]; ok {
			out = append(out, c)
		}
	}
	return out
}

// verifC13KeysValues: keys are the distinct keys in ascending order; values follow the same order.
func verifC13KeysValues() {
	n := vChoice("n", 4)
	object := vChoice("object", 2) == 1
	m, _, ref := sKeyed("k", n, object, 1, false)
	want := sSortedKeys(ref)
	ks, err := KeysFunc.Call([]cty.Value{m})
	vAssert("keys-succeeds", err == nil)
	if err == nil {
		vAssert("keys-known", ks.IsKnown() && !ks.IsNull())
		if object {
			vAssert("keys-object-gives-tuple", ks.Type().IsTupleType())
		} else {
			vAssert("keys-map-gives-list", ks.Type().Equals(cty.List(cty.String)))
		}
		vAssert("keys-length", ks.LengthInt() == len(want))
		i := 0
		for it := ks.ElementIterator(); it.Next(); i++ {
			_, v := it.Element()
			vAssert("keys-member", i < len(want) && sIsStr(v, want[i]))
		}
	}
	vs, err := ValuesFunc.Call([]cty.Value{m})
	vAssert("values-succeeds", err == nil)
	if err == nil {
		vAssert("values-known", vs.IsKnown() && !vs.IsNull())
		if object {
			vAssert("values-object-gives-tuple", vs.Type().IsTupleType())
		} else {
			vAssert("values-map-gives-list", vs.Type().Equals(cty.List(cty.Number)))
		}
		vAssert("values-length", vs.LengthInt() == len(want))
		i := 0
		for it := vs.ElementIterator(); it.Next(); i++ {
			_, v := it.Element()
			vAssert("values-member", i < len(want) && v.RawEquals(ref[want[i]]))
		}
	}
	_, err = KeysFunc.Call([]cty.Value{cty.ListValEmpty(cty.String)})
	vAssert("keys-list-is-error", err != nil)
	_, err = ValuesFunc.Call([]cty.Value{cty.ListValEmpty(cty.String)})
	vAssert("values-list-is-error", err != nil)
	vReach("end")
}

// verifC13Lookup: lookup(m, k, d) is m[k] when present, else d (for maps: d converted to the element type).
func verifC13Lookup() {
	n := vChoice("n", 3)
	object := vChoice("object", 2) == 1
	m, _, ref := sKeyed("k", n, object, 1, false)
	q := vStr("q", 1, 'a', 'd')
	dk := 100 + int64(vChoice("d", 3)) // concrete: the string form is parsed by math/big
	var def cty.Value
	defKind := vChoice("defkind", 3)
	switch defKind {
	case 0:
		def = cty.NumberIntVal(dk)
	case 1:
		def = cty.StringVal(string(rune('0' + dk - 100))) // "0".."2": convertible to number
	default:
		def = cty.StringVal("zz") // not convertible to number
	}
	r, err := LookupFunc.Call([]cty.Value{m, cty.StringVal(q), def})
	w, present := ref[q]
	if object {
		vAssert("lookup-object-succeeds", err == nil)
		if err == nil {
			if present {
				vAssert("lookup-object-attr", r.RawEquals(w))
			} else {
				vAssert("lookup-object-default", r.RawEquals(def))
			}
		}
	} else {
		vAssert("lookup-map-fails-only-on-inconvertible-default", (err == nil) == (defKind != 2))
		if err == nil && defKind != 2 {
			if present {
				vAssert("lookup-map-member", r.RawEquals(w))
			} else if defKind == 0 {
				vAssert("lookup-map-default", sIsInt(r, dk))
			} else {
				vAssert("lookup-map-default-converted", sIsInt(r, dk-100))
			}
		}
	}
	_, err = LookupFunc.Call([]cty.Value{cty.ListValEmpty(cty.Number), cty.StringVal(q), def})
	vAssert("lookup-list-is-error", err != nil)
	vReach("end")
}

// verifC13Merge: later arguments win; all maps of one type give a map, any mixture with objects gives an object;
// null arguments contribute nothing.
func verifC13Merge() {
	na := vChoice("nargs", 3+vTier())
	var args []cty.Value
	ref := map[string]cty.Value{}
	allSame := true
	var firstTy cty.Type
	for a := 0; a < na; a++ {
		kind := vChoice("akind", 5) // 0 map of numbers, 1 object, 2 null map, 3 map of strings, 4 object with string attributes
		n := vChoice("alen", 3)
		if kind == 2 {
			n = 0
		}
		v, _, r := sKeyed("k", n, kind == 1 || kind == 4, int64(10*(a+1)), kind >= 3)
		if kind == 2 {
			v = cty.NullVal(cty.Map(cty.Number))
		}
		args = append(args, v)
		for _, c := range []string{"", "a", "b", "c", "aa", "ab", "ba", "bb"} {
			if x, ok := r[c]; ok {
				ref[c] = x
			}
		}
		if a == 0 {
			firstTy = v.Type()
		} else if !v.Type().Equals(firstTy) {
			allSame = false
		}
	}
	r, err := MergeFunc.Call(args)
	vAssert("merge-succeeds", err == nil)
	if err == nil {
		vAssert("merge-known", r.IsKnown() && !r.IsNull())
		switch {
		case na == 0:
			vAssert("merge-nothing-gives-empty-object", r.RawEquals(cty.EmptyObjectVal))
		case allSame:
			// every argument has one type: the result has that type
			vAssert("merge-same-types-give-that-type", r.Type().Equals(firstTy))
		default:
			// any mixture (maps with objects, maps of different element types, different object types): an object
			vAssert("merge-mixture-gives-object", r.Type().IsObjectType())
		}
		// the members are exactly the reference's: the last argument that has a key wins
		vAssert("merge-length", r.LengthInt() == len(ref))
		for _, c := range []string{"", "a", "b", "c", "aa", "ab", "ba", "bb"} {
			w, ok := ref[c]
			var got cty.Value
			has := false
			if r.Type().IsObjectType() {
				if r.Type().HasAttribute(c) {
					has = true
					got = r.GetAttr(c)
				}
			} else if r.HasIndex(cty.StringVal(c)).True() {
				has = true
				got = r.Index(cty.StringVal(c))
			}
			vAssert("merge-key-present-exactly-when-in-reference", has == ok)
			if has && ok {
				vAssert("merge-later-argument-wins", got.RawEquals(w))
			}
		}
	}
	_, err = MergeFunc.Call([]cty.Value{cty.ListValEmpty(cty.Number)})
	vAssert("merge-list-is-error", err != nil)
	vReach("end")
}

// verifC13Zipmap: zipmap(keys, values): lengths must agree; later duplicates win; list values give a map, tuple
// values an object.
func verifC13Zipmap() {
	n := vChoice("n", 4)
	m := vChoice("m", 4)
	tuple := vChoice("tuple", 2) == 1
	keys := make([]string, n)
	kvs := make([]cty.Value, n)
	for i := range keys {
		keys[i] = vStr("k", 1, 'a', 'c')
		kvs[i] = cty.StringVal(keys[i])
	}
	var kl cty.Value
	if n == 0 {
		kl = cty.ListValEmpty(cty.String)
	} else {
		kl = cty.ListVal(kvs)
	}
	vals := make([]cty.Value, m)
	for i := range vals {
		vals[i] = cty.NumberIntVal(int64(10 + i))
	}
	var vl cty.Value
	if tuple {
		vl = cty.TupleVal(vals)
	} else if m == 0 {
		vl = cty.ListValEmpty(cty.Number)
	} else {
		vl = cty.ListVal(vals)
	}
	r, err := ZipmapFunc.Call([]cty.Value{kl, vl})
	vAssert("zipmap-fails-exactly-on-length-mismatch", (err == nil) == (n == m))
	if err == nil && n == m {
		ref := map[string]int64{}
		for i := range keys {
			ref[keys[i]] = int64(10 + i)
		}
		vAssert("zipmap-known", r.IsKnown() && !r.IsNull())
		if tuple {
			vAssert("zipmap-tuple-gives-object", r.Type().IsObjectType())
		} else {
			vAssert("zipmap-list-gives-map", r.Type().Equals(cty.Map(cty.Number)))
		}
		vAssert("zipmap-length", r.LengthInt() == len(ref))
		for _, c := range []string{"", "a", "b", "c", "aa", "ab", "ba", "bb"} {
			w, ok := ref[c]
			has := false
			var got cty.Value
			if tuple {
				if r.Type().HasAttribute(c) {
					has, got = true, r.GetAttr(c)
				}
			} else if r.HasIndex(cty.StringVal(c)).True() {
				has, got = true, r.Index(cty.StringVal(c))
			}
			vAssert("zipmap-key-present-exactly-when-given", has == ok)
			if has && ok {
				vAssert("zipmap-later-duplicate-wins", sIsInt(got, w))
			}
		}
	}
	vReach("end")
}

// verifC13Flatten: flatten replaces nested lists, sets and tuples by their members, recursively, in order; other
// members (including null sequences) stay; the result is a tuple.
func verifC13Flatten() {
	n := vChoice("n", 4)
	items := make([]cty.Value, n)
	var want []cty.Value
	next := int64(1)
	leaf := func() cty.Value {
		v := cty.NumberIntVal(next)
		next++
		return v
	}
	allLists := true
	for i := range items {
		switch vChoice("item", 7) {
		case 0:
			v := leaf()
			items[i] = v
			want = append(want, v)
			allLists = false
		case 1:
			items[i] = cty.ListValEmpty(cty.Number)
		case 2:
			a, b := leaf(), leaf()
			items[i] = cty.ListVal([]cty.Value{a, b})
			want = append(want, a, b)
		case 3:
			a, b, c := leaf(), leaf(), leaf()
			items[i] = cty.TupleVal([]cty.Value{a, cty.ListVal([]cty.Value{b}), cty.TupleVal([]cty.Value{cty.SetVal([]cty.Value{c})})})
			want = append(want, a, b, c)
			allLists = false
		case 4:
			a, b := leaf(), leaf()
			items[i] = cty.SetVal([]cty.Value{a, b}) // ascending: iteration order is a, b
			want = append(want, a, b)
			allLists = false
		case 5:
			v := cty.NullVal(cty.List(cty.Number))
			items[i] = v
			want = append(want, v)
		default:
			v := cty.StringVal("s")
			items[i] = v
			want = append(want, v)
			allLists = false
		}
	}
	var in cty.Value
	if vChoice("outer", 2) == 1 && allLists && n > 0 {
		in = cty.ListVal(items) // a list of lists of numbers
	} else {
		in = cty.TupleVal(items)
	}
	r, err := FlattenFunc.Call([]cty.Value{in})
	vAssert("flatten-succeeds", err == nil)
	if err == nil {
		vAssert("flatten-gives-known-tuple", r.Type().IsTupleType() && r.IsKnown() && !r.IsNull())
		vAssert("flatten-length", r.LengthInt() == len(want))
		i := 0
		for it := r.ElementIterator(); it.Next(); i++ {
			_, v := it.Element()
			vAssert("flatten-member", i < len(want) && v.RawEquals(want[i]))
		}
	}
	_, err = FlattenFunc.Call([]cty.Value{cty.MapValEmpty(cty.Number)})
	vAssert("flatten-map-is-error", err != nil)
	vReach("end")
}

// verifC13SetProduct: the cartesian product in lexicographic argument order; a list of tuples when every argument is
// a list or tuple, otherwise a set of tuples; fewer than two arguments is an error.
func verifC13SetProduct() {
	na := 1 + vChoice("nargs", 3+vTier())
	args := make([]cty.Value, na)
	mem := make([][]cty.Value, na)
	allSeq := true
	total := 1
	for a := range args {
		kind := vChoice("akind", 4)
		n := vChoice("alen", 3)
		args[a], mem[a] = sMixedSeq(kind, n, 10*(a+1))
		if kind == 3 {
			allSeq = false
		}
		if kind == 2 && n == 2 {
			// a tuple mixing a number and a string: its members are converted to strings
			mem[a] = []cty.Value{cty.StringVal(string(rune('0'+(a+1))) + "0"), mem[a][1]}
		}
		total *= n
	}
	r, err := SetProductFunc.Call(args)
	vAssert("setproduct-fails-exactly-with-fewer-than-two-arguments", (err == nil) == (na >= 2))
	if err == nil && na >= 2 {
		vAssert("setproduct-known", r.IsKnown() && !r.IsNull())
		if allSeq {
			vAssert("setproduct-of-sequences-is-list", r.Type().IsListType() && r.Type().ElementType().IsTupleType())
		} else {
			vAssert("setproduct-with-a-set-is-set", r.Type().IsSetType() && r.Type().ElementType().IsTupleType())
		}
		vAssert("setproduct-size", r.LengthInt() == total)
		// every combination, in lexicographic order of the argument positions
		idx := make([]int, na)
		elems := r.AsValueSlice()
		for p := 0; p < total; p++ {
			comb := make([]cty.Value, na)
			for a := range comb {
				comb[a] = mem[a][idx[a]]
			}
			want := cty.TupleVal(comb)
			if allSeq {
				vAssert("setproduct-list-order", p < len(elems) && elems[p].RawEquals(want))
			} else {
				found := false
				for _, e := range elems {
					if e.RawEquals(want) {
						found = true
					}
				}
				vAssert("setproduct-set-has-combination", found)
			}
			for a := na - 1; a >= 0; a-- {
				idx[a]++
				if idx[a] < len(mem[a]) {
					break
				}
				idx[a] = 0
			}
		}
	}
	vReach("end")
}

// sMaskSet builds a set of the numbers (or decimal strings) i in 0..2 whose bit is set in mask.
func sMaskSet(mask int, str bool, dynEmpty bool) cty.Value {
	var ms []cty.Value
	for i := 0; i < 3; i++ {
		if mask>>uint(i)&1 == 1 {
			if str {
				ms = append(ms, cty.StringVal(string(rune('0'+i))))
			} else {
				ms = append(ms, cty.NumberIntVal(int64(i)))
			}
		}
	}
	if len(ms) == 0 {
		if dynEmpty {
			return cty.SetValEmpty(cty.DynamicPseudoType)
		}
		if str {
			return cty.SetValEmpty(cty.String)
		}
		return cty.SetValEmpty(cty.Number)
	}
	return cty.SetVal(ms)
}

// sSetMask decodes a set of numbers or decimal strings back into a mask; ok is false on anything unexpected
// (duplicates, foreign members).
func sSetMask(v cty.Value) (int, bool) {
	if !v.Type().IsSetType() || !v.IsKnown() || v.IsNull() {
		return 0, false
	}
	mask := 0
	for it := v.ElementIterator(); it.Next(); {
		_, e := it.Element()
		var i int64
		if e.Type() == cty.String {
			if e.IsNull() || len(e.AsString()) != 1 {
				return 0, false
			}
			i = int64(e.AsString()[0] - '0')
		} else {
			var ok bool
			i, ok = sInt(e)
			if !ok {
				return 0, false
			}
		}
		if i < 0 || i > 2 || mask>>uint(i)&1 == 1 {
			return 0, false
		}
		mask |= 1 << uint(i)
	}
	return mask, true
}

// verifC13SetOps: union, intersection, subtraction, symmetric difference (folded left over all arguments) and
// membership against a bit-mask model; sets of numbers and of decimal strings unify to sets of strings.
func verifC13SetOps() {
	op := vChoice("op", 5)
	na := 2
	if op != 2 && op != 4 {
		na = 1 + vChoice("nargs", 3)
	}
	masks := make([]int, na)
	args := make([]cty.Value, na)
	anyStr, anyTyped := false, false
	universe := 8
	if na == 3 && vTier() == 0 {
		universe = 4 // quick tier: three sets over two possible members
	}
	for a := range args {
		masks[a] = vChoice("mask", universe)
		str, dyn := false, false
		if masks[a] == 0 {
			switch vChoice("emptykind", 3) {
			case 1:
				str = true
			case 2:
				dyn = true
			}
		} else {
			str = vChoice("str", 2) == 1
		}
		args[a] = sMaskSet(masks[a], str, dyn)
		if !args[a].Type().ElementType().Equals(cty.DynamicPseudoType) {
			anyTyped = true
			if str {
				anyStr = true
			}
		}
	}
	if op == 4 {
		x := vChoice("x", 4)
		r, err := SetHasElementFunc.Call([]cty.Value{sMaskSet(masks[0], false, false), cty.NumberIntVal(int64(x))})
		vAssert("sethaselement-succeeds", err == nil)
		if err == nil {
			vAssert("sethaselement", sIsBool(r, masks[0]>>uint(x)&1 == 1))
		}
		vReach("end-has")
		return
	}
	want := masks[0]
	for a := 1; a < na; a++ {
		switch op {
		case 0:
			want |= masks[a]
		case 1:
			want &= masks[a]
		case 2:
			want &^= masks[a]
		default:
			want ^= masks[a]
		}
	}
	var r cty.Value
	var err error
	switch op {
	case 0:
		r, err = SetUnionFunc.Call(args)
	case 1:
		r, err = SetIntersectionFunc.Call(args)
	case 2:
		r, err = SetSubtractFunc.Call(args)
	default:
		r, err = SetSymmetricDifferenceFunc.Call(args)
	}
	vAssert("setop-succeeds", err == nil)
	if err == nil {
		got, ok := sSetMask(r)
		vAssert("setop-result-is-a-set-of-the-members", ok)
		vAssert("setop-matches-mask-model", got == want)
		switch {
		case !anyTyped:
			vAssert("setop-untyped-empties-give-dynamic-set", r.Type().Equals(cty.Set(cty.DynamicPseudoType)))
		case anyStr:
			vAssert("setop-unifies-to-strings", r.Type().Equals(cty.Set(cty.String)))
		default:
			vAssert("setop-number-sets", r.Type().Equals(cty.Set(cty.Number)))
		}
	}
	vReach("end")
}

// verifC13Coalesce: coalesce returns the first non-null argument converted to the unified type; coalescelist the
// first non-empty sequence; both fail when there is none.
func verifC13Coalesce() {
	na := vChoice("nargs", 4)
	args := make([]cty.Value, na)
	first := -1
	anyStr := false
	for a := range args {
		switch vChoice("akind", 4) {
		case 0:
			args[a] = cty.NullVal(cty.Number)
		case 1:
			args[a] = cty.NumberIntVal(int64(a + 1))
			if first < 0 {
				first = a
			}
		case 2:
			args[a] = cty.StringVal(string(rune('a' + a)))
			anyStr = true
			if first < 0 {
				first = a
			}
		default:
			args[a] = cty.NullVal(cty.String)
			anyStr = true
		}
	}
	r, err := CoalesceFunc.Call(args)
	vAssert("coalesce-fails-exactly-without-non-null", (err == nil) == (first >= 0))
	if err == nil && first >= 0 {
		w := args[first]
		if anyStr && w.Type() == cty.Number {
			w = cty.StringVal(string(rune('0' + first + 1)))
		}
		vAssert("coalesce-first-non-null-in-unified-type", r.RawEquals(w))
	}

	// coalescelist
	la := vChoice("lnargs", 4)
	largs := make([]cty.Value, la)
	lfirst := -1
	for a := range largs {
		k := vChoice("lkind", 5)
		switch k {
		case 0:
			largs[a] = cty.ListValEmpty(cty.Number)
		case 1:
			largs[a] = cty.EmptyTupleVal
		case 2:
			largs[a] = cty.NullVal(cty.List(cty.Number))
		case 3:
			largs[a] = cty.ListVal([]cty.Value{cty.NumberIntVal(int64(a + 1))})
		default:
			largs[a] = cty.TupleVal([]cty.Value{cty.StringVal("t"), cty.NumberIntVal(int64(a + 1))})
		}
		if k >= 3 && lfirst < 0 {
			lfirst = a
		}
	}
	lr, err := CoalesceListFunc.Call(largs)
	vAssert("coalescelist-fails-exactly-without-non-empty", (err == nil) == (lfirst >= 0))
	if err == nil && lfirst >= 0 {
		vAssert("coalescelist-first-non-empty", lr.RawEquals(largs[lfirst]))
	}
	vReach("end")
}
