//go:build verif

package stdlib

// C12 — standard functions treat unknown arguments soundly.
//
// Paired execution through Function.Call: a wholly known argument list (generated from the function's own declared
// parameters, with symbolic leaves) and a weakening of it in which one argument, or one member of one argument, is
// replaced by an unknown value of the same type — unrefined, or refined through the real Refine API with facts that
// are true of the replaced part (not null; numeric bounds lo <= v <= hi with symbolic slack and inclusiveness;
// collection length bounds with symbolic slack; a prefix of the string). Asserted: a successful concrete call stays
// successful, the abstract result admits the concrete one (type, nullness, numeric and length bounds, prefix, every
// known part), and wholly known arguments give a wholly known result.

import (
	"math/big"
	"strings"

	"github.com/zclconf/go-cty/cty"
	"github.com/zclconf/go-cty/cty/function"
)

func init() {
	verifRegister("verifC12Numbers", verifC12Numbers)
	verifRegister("verifC12General", verifC12General)
	verifRegister("verifC12Collections1", verifC12Collections1)
	verifRegister("verifC12Collections2", verifC12Collections2)
	verifRegister("verifC12Lookup", verifC12Lookup)
	verifRegister("verifC12Variadic", verifC12Variadic)
	verifRegister("verifC12Sets", verifC12Sets)
	verifRegister("verifC12Strings", verifC12Strings)
	verifRegister("verifC12SetProductBounds", verifC12SetProductBounds)
}

func verifC12Numbers()      { c12Drive(c11Numbers) }
func verifC12General() {
	c12SlimAll = vTier() == 0
	c12Drive(c11General)
}
func verifC12Collections1() { c12Drive(c11Collections1) }
func verifC12Collections2() { c12Drive(c11Collections2) }
func verifC12Lookup()       { c12Drive(c11Collections3) }
func verifC12Variadic()     { c12Drive(c12VariadicFns) }

// setproduct has its own harness (verifC12SetProductBounds): sets of tuples of symbolic numbers are expensive to hash
var c12VariadicFns = []c11Fn{
	{"coalesce", CoalesceFunc, 0}, {"coalescelist", CoalesceListFunc, 0}, {"merge", MergeFunc, 0}, {"concat", ConcatFunc, 0},
}
func verifC12Sets()         { c12Drive(c11Sets) }
func verifC12Strings()      { c12Drive(c11Strings) }

const c12Range = 1 << 20

// c12NumRange: numerator range of symbolic numbers for the function being driven (see c11Fn.rng)
var c12NumRange int64 = c12Range

// c12Num: a known number: a symbolic quarter-integer or an infinity.
func c12Num(tag string) cty.Value {
	switch vChoice(tag+"-nk", 3) {
	case 1:
		return cty.PositiveInfinity
	case 2:
		return cty.NegativeInfinity
	}
	return sQuarter(vInt(tag, -c12NumRange, c12NumRange))
}

func c12SmallInt(tag string) cty.Value { return cty.NumberIntVal(vInt(tag, 0, 2)) }

func c12NumList(tag string) cty.Value {
	switch vChoice(tag+"-nl", 4) {
	case 0:
		return cty.ListValEmpty(cty.Number)
	case 1:
		return cty.ListVal([]cty.Value{c12SmallInt(tag + "-m")})
	case 2:
		return cty.ListVal([]cty.Value{c12SmallInt(tag + "-m"), c12SmallInt(tag + "-m")})
	}
	return cty.ListVal([]cty.Value{cty.NumberIntVal(1), cty.NullVal(cty.Number)})
}

func c12StrList(tag string) cty.Value {
	switch vChoice(tag+"-sl", 4) {
	case 0:
		return cty.ListValEmpty(cty.String)
	case 1:
		return cty.ListVal([]cty.Value{cty.StringVal("b"), cty.StringVal("a")})
	case 2:
		return cty.ListVal([]cty.Value{cty.StringVal("a"), cty.StringVal("")})
	}
	return cty.ListVal([]cty.Value{cty.StringVal("a"), cty.StringVal("a"), cty.StringVal("c")})
}

func c12Set(tag string) cty.Value {
	switch vChoice(tag+"-st", 5) {
	case 0:
		return cty.SetValEmpty(cty.Number)
	case 1:
		return cty.SetVal([]cty.Value{cty.NumberIntVal(1), cty.NumberIntVal(2)})
	case 2:
		return cty.SetVal([]cty.Value{cty.NumberIntVal(2)})
	case 3:
		return cty.SetVal([]cty.Value{cty.StringVal("1"), cty.StringVal("x")})
	}
	return cty.SetVal([]cty.Value{
		cty.ObjectVal(map[string]cty.Value{"a": cty.StringVal("b"), "n": cty.NumberIntVal(1)}),
		cty.ObjectVal(map[string]cty.Value{"a": cty.StringVal("c"), "n": cty.NumberIntVal(2)}),
	})
}

// c12Slim: later variadic arguments in the quick tier come from the first kinds of the menu only
var c12Slim = false

// c12SlimAll: every placeholder-typed argument comes from the reduced menu (quick tier of the two-argument equality
// functions, whose argument space is the square of the menu)
var c12SlimAll = false

func c12Any(tag string) cty.Value {
	n := 13
	if c12Slim {
		n = 9
	}
	if c12SlimAll {
		// number, string, bool, number list, set (incl. the set of objects), object
		return c12AnySlim(tag)
	}
	switch vChoice(tag+"-any", n) {
	case 0:
		return c12Num(tag + "-n")
	case 1:
		return cty.StringVal([]string{"", "a", "ab"}[vChoice(tag+"-s", 3)])
	case 2:
		return cty.BoolVal(vBool(tag + "-b"))
	case 3:
		return c12NumList(tag)
	case 4:
		return c12StrList(tag)
	case 5:
		return cty.TupleVal([]cty.Value{c12SmallInt(tag + "-t"), cty.StringVal("a")})
	case 6:
		return cty.EmptyTupleVal
	case 7:
		return c12Set(tag)
	case 8:
		return cty.MapVal(map[string]cty.Value{"a": c12SmallInt(tag + "-ma"), "b": cty.NumberIntVal(2)})
	case 9:
		return cty.MapValEmpty(cty.String)
	case 10:
		return cty.ObjectVal(map[string]cty.Value{"a": c12SmallInt(tag + "-oa"), "b": cty.StringVal("x")})
	case 11:
		return cty.ListVal([]cty.Value{cty.ListVal([]cty.Value{cty.NumberIntVal(1)}), cty.ListValEmpty(cty.Number)})
	}
	return cty.ObjectVal(map[string]cty.Value{"a": cty.StringVal("b"), "n": cty.NumberIntVal(1)})
}

func c12AnySlim(tag string) cty.Value {
	switch vChoice(tag+"-anyslim", 6) {
	case 0:
		return c12Num(tag + "-n")
	case 1:
		return cty.StringVal([]string{"", "a", "ab"}[vChoice(tag+"-s", 3)])
	case 2:
		return cty.BoolVal(vBool(tag + "-b"))
	case 3:
		return c12NumList(tag)
	case 4:
		return c12Set(tag)
	}
	return cty.ObjectVal(map[string]cty.Value{"a": cty.StringVal("b"), "n": cty.NumberIntVal(1)})
}

// c12Known generates a wholly known, unmarked argument for a parameter with type constraint ty.
func c12Known(tag string, ty cty.Type) cty.Value {
	switch {
	case ty == cty.Number:
		return c12Num(tag)
	case ty == cty.String:
		switch vChoice(tag, 4) {
		case 0:
			return cty.StringVal("")
		case 1:
			return cty.StringVal("a")
		case 2:
			return cty.StringVal(" a b\nab ")
		}
		return cty.StringVal("ab")
	case ty == cty.Bool:
		return cty.BoolVal(vBool(tag + "-b"))
	case ty.Equals(Bytes):
		return BytesVal([]byte("abc"))
	case ty.IsListType() && ty.ElementType() == cty.String:
		return c12StrList(tag)
	case ty.IsListType():
		switch vChoice(tag, 3) {
		case 0:
			return c12NumList(tag)
		case 1:
			return c12StrList(tag)
		}
		return cty.ListVal([]cty.Value{cty.ListVal([]cty.Value{cty.NumberIntVal(1)}), cty.ListValEmpty(cty.Number)})
	case ty.IsSetType():
		return c12Set(tag)
	}
	return c12Any(tag)
}

// c12Unknown: an unknown of v's type that admits v: unrefined, or refined with facts true of v.
func c12Unknown(tag string, v cty.Value) cty.Value {
	u := cty.UnknownVal(v.Type())
	if vChoice(tag+"-refined", 2) == 0 {
		return u
	}
	if v.IsNull() {
		return u // (Refine().Null() would collapse to the known null)
	}
	b := u.Refine().NotNull()
	ty := v.Type()
	switch {
	case ty == cty.Number:
		bf := v.AsBigFloat()
		if !bf.IsInf() {
			// v = k/4: bounds (k-d1)/4 and (k+d2)/4, exclusive only when strictly away from v
			k4 := new(big.Float).SetPrec(200).Mul(bf, big.NewFloat(4))
			k, _ := k4.Int64()
			d1 := vInt(tag+"-d1", 0, 8)
			d2 := vInt(tag+"-d2", 0, 8)
			incLo := vBool(tag + "-inclo")
			incHi := vBool(tag + "-inchi")
			vAssume(vOr(incLo, d1 > 0))
			vAssume(vOr(incHi, d2 > 0))
			useLo := vChoice(tag+"-lo", 2) == 1
			useHi := vChoice(tag+"-hi", 2) == 1
			if useLo && useHi {
				// equal bounds collapse the unknown into a known number whose value is a symbolic term; such a number
				// inside a set of strings is hashed through an uninterpreted function the engine cannot align with the
				// hash of the literal text (spurious counterexamples): the collapse itself is C05's subject
				vAssume(vOr(d1 > 0, d2 > 0))
			}
			if useLo {
				b = b.NumberRangeLowerBound(sQuarter(k-d1), incLo)
			}
			if useHi {
				b = b.NumberRangeUpperBound(sQuarter(k+d2), incHi)
			}
		}
	case ty.IsCollectionType():
		n := int64(v.LengthInt())
		d1 := vInt(tag+"-l1", 0, 2)
		d2 := vInt(tag+"-l2", 0, 2)
		vAssume(d1 <= n)
		if vChoice(tag+"-llo", 2) == 1 {
			b = b.CollectionLengthLowerBound(int(n - d1))
		}
		if vChoice(tag+"-lhi", 2) == 1 {
			b = b.CollectionLengthUpperBound(int(n + d2))
		}
	case ty == cty.String:
		s := v.AsString()
		pl := vChoice(tag+"-plen", 3)
		if pl <= len(s) && pl > 0 {
			b = b.StringPrefixFull(s[:pl])
		}
	}
	return b.NewValue()
}

// c12Weaken replaces v, or one member of v, by an unknown that admits it. ok=false: nothing was weakened.
func c12Weaken(tag string, v cty.Value) (cty.Value, bool) {
	ty := v.Type()
	nested := false
	if !v.IsNull() && (ty.IsListType() || ty.IsTupleType() || ty.IsMapType() || ty.IsObjectType() || ty.IsSetType()) && v.LengthInt() > 0 {
		nested = vChoice(tag+"-nested", 2) == 1
	}
	if !nested {
		return c12Unknown(tag, v), true
	}
	// one member (position j in iteration order) becomes unknown; for a member that is itself an object, one of its
	// attributes may become unknown instead
	j := vChoice(tag+"-member", v.LengthInt())
	var keys []cty.Value
	var vals []cty.Value
	for it := v.ElementIterator(); it.Next(); {
		k, e := it.Element()
		keys = append(keys, k)
		vals = append(vals, e)
	}
	m := vals[j]
	if m.Type().IsObjectType() && !m.IsNull() && m.LengthInt() > 0 && vChoice(tag+"-deeper", 2) == 1 {
		attrs := m.AsValueMap()
		names := make([]string, 0, len(attrs))
		for _, n := range []string{"a", "b", "c", "n"} {
			if _, ok := attrs[n]; ok {
				names = append(names, n)
			}
		}
		an := names[vChoice(tag+"-attr", len(names))]
		attrs[an] = c12Unknown(tag+"-am", attrs[an])
		vals[j] = cty.ObjectVal(attrs)
	} else {
		vals[j] = c12Unknown(tag+"-m", m)
	}
	switch {
	case ty.IsListType():
		return cty.ListVal(vals), true
	case ty.IsTupleType():
		return cty.TupleVal(vals), true
	case ty.IsSetType():
		return cty.SetVal(vals), true
	}
	mm := map[string]cty.Value{}
	for i := range keys {
		mm[keys[i].AsString()] = vals[i]
	}
	if ty.IsMapType() {
		return cty.MapVal(mm), true
	}
	return cty.ObjectVal(mm), true
}

// c12Admits: may the abstract value a stand for the wholly known value c?
func c12Admits(a, c cty.Value) bool {
	a, _ = a.Unmark()
	c, _ = c.Unmark()
	if c.Type().TestConformance(a.Type()) != nil {
		return false
	}
	if !a.IsKnown() {
		if a.Type() == cty.DynamicPseudoType {
			return true
		}
		rng := a.Range()
		if c.IsNull() {
			return !rng.DefinitelyNotNull()
		}
		ty := c.Type()
		switch {
		case ty == cty.Number:
			lo, loInc := rng.NumberLowerBound()
			hi, hiInc := rng.NumberUpperBound()
			// an infinite reported bound means "no bound on that side"
			if lo.IsKnown() && !lo.RawEquals(cty.NegativeInfinity) {
				if loInc {
					if c.LessThan(lo).True() {
						return false
					}
				} else if c.LessThanOrEqualTo(lo).True() {
					return false
				}
			}
			if hi.IsKnown() && !hi.RawEquals(cty.PositiveInfinity) {
				if hiInc {
					if c.GreaterThan(hi).True() {
						return false
					}
				} else if c.GreaterThanOrEqualTo(hi).True() {
					return false
				}
			}
		case ty.IsCollectionType():
			n := c.LengthInt()
			if n < rng.LengthLowerBound() || n > rng.LengthUpperBound() {
				return false
			}
		case ty == cty.String:
			if !strings.HasPrefix(c.AsString(), rng.StringPrefix()) {
				return false
			}
		}
		return true
	}
	if a.IsNull() {
		return c.IsNull()
	}
	if c.IsNull() {
		return false
	}
	ty := a.Type()
	switch {
	case ty.Equals(Bytes):
		// capsule values are compared by pointer: two calls build two buffers; compare the contents
		ab, cb := *(a.EncapsulatedValue().(*[]byte)), *(c.EncapsulatedValue().(*[]byte))
		return string(ab) == string(cb)
	case ty.IsPrimitiveType() || ty.IsCapsuleType():
		return a.RawEquals(c)
	case ty.IsSetType():
		if a.IsWhollyKnown() {
			return a.RawEquals(c)
		}
		// a set with unknown members: they may coalesce with each other or with known members
		n := c.LengthInt()
		lr := a.Length().Range()
		lo, _ := lr.NumberLowerBound()
		hi, _ := lr.NumberUpperBound()
		if lo.IsKnown() && cty.NumberIntVal(int64(n)).LessThan(lo).True() {
			return false
		}
		if hi.IsKnown() && cty.NumberIntVal(int64(n)).GreaterThan(hi).True() {
			return false
		}
		return true
	case ty.IsListType() || ty.IsTupleType():
		if a.LengthInt() != c.LengthInt() {
			return false
		}
		ai, ci := a.ElementIterator(), c.ElementIterator()
		for ai.Next() && ci.Next() {
			_, av := ai.Element()
			_, cv := ci.Element()
			if !c12Admits(av, cv) {
				return false
			}
		}
		return true
	case ty.IsMapType() || ty.IsObjectType():
		if a.LengthInt() != c.LengthInt() {
			return false
		}
		am, cm := a.AsValueMap(), c.AsValueMap()
		for k, av := range am {
			cv, ok := cm[k]
			if !ok || !c12Admits(av, cv) {
				return false
			}
		}
		return true
	}
	return a.RawEquals(c)
}

func c12Drive(fns []c11Fn) {
	fi := vChoice("fn", len(fns))
	f := fns[fi].f
	c12NumRange = c12Range
	if fns[fi].rng != 0 {
		c12NumRange = fns[fi].rng
	}
	params := f.Params()
	vp := f.VarParam()
	nvar := 0
	if vp != nil {
		nvar = vChoice("nvar", 3) // thorough tier: same counts, full menus at every position
	}
	var args []cty.Value
	tags := []string{"a0", "a1", "a2", "a3", "a4"}
	for k, p := range params {
		if k >= 1 && p.Type == cty.Number && (fns[fi].name == "multiply" || fns[fi].name == "divide" || fns[fi].name == "modulo") {
			// products and quotients of two symbolic numbers are nonlinear: the second operand comes from a menu
			args = append(args, nMenu(tags[k]).v)
			continue
		}
		args = append(args, c12Known(tags[k], p.Type))
	}
	for k := 0; k < nvar; k++ {
		c12Slim = len(params)+k >= 1 && vTier() == 0
		args = append(args, c12Known(tags[len(params)+k], vp.Type))
	}
	c12Slim = false
	if len(args) == 0 {
		vAssume(false)
	}
	conc, err := f.Call(args)
	if err != nil {
		// outside the function's domain: nothing to compare (C11 and C13 look at failures)
		vReach("end-concrete-fails")
		return
	}
	vAssert("known-arguments-give-known-result", conc.IsWhollyKnown())
	w := vChoice("weaken", len(args))
	wargs := make([]cty.Value, len(args))
	copy(wargs, args)
	wv, ok := c12Weaken("w", args[w])
	if !ok {
		vAssume(false)
	}
	wargs[w] = wv
	emptyProduct := false
	if fns[fi].name == "setproduct" && conc.Type().IsCollectionType() {
		emptyProduct = conc.LengthInt() == 0
	}
	vKnown("F13-setproduct-lower-bound-with-possibly-empty-argument", emptyProduct)
	// recorded finding F18 (see C01): equality between an infinity and a refined unknown number is "disproved"
	infEq := false
	if fns[fi].name == "equal" || fns[fi].name == "notequal" {
		for _, a := range args {
			if a.RawEquals(cty.PositiveInfinity) || a.RawEquals(cty.NegativeInfinity) {
				infEq = true
			}
		}
	}
	vKnown("F18-equality-with-infinity-disproved-by-unbounded-range", infEq)
	c12SlimAll = false
	abs, err := f.Call(wargs)
	vAssert("weakened-call-still-succeeds", err == nil)
	if err == nil {
		vAssert("weakened-result-admits-concrete-result", c12Admits(abs, conc))
	}
	vReach("end")
}

// verifC12SetProductBounds: setproduct with unknown arguments whose length bounds are symbolic, up to and beyond the
// thresholds at which the function gives up on tracking a bound, against concrete arguments of a length within the
// bounds: the reported length range of the result must contain the real product size.
func verifC12SetProductBounds() {
	na := 2 + vChoice("nargs", 1+vTier())
	args := make([]cty.Value, na)
	wargs := make([]cty.Value, na)
	size := int64(1)
	symHi := false
	for a := range args {
		n := vChoice("len", 3) // real length 0..2
		ms := make([]cty.Value, n)
		for i := range ms {
			ms[i] = cty.NumberIntVal(int64(10*a + i))
		}
		set := vChoice("set", 2) == 1
		switch {
		case n == 0 && set:
			args[a] = cty.SetValEmpty(cty.Number)
		case n == 0:
			args[a] = cty.ListValEmpty(cty.Number)
		case set:
			args[a] = cty.SetVal(ms)
		default:
			args[a] = cty.ListVal(ms)
		}
		size *= int64(n)
		switch vChoice("weak", 3) {
		case 0:
			wargs[a] = args[a]
		case 1:
			wargs[a] = cty.UnknownVal(args[a].Type())
		default:
			lo := vInt("lo", 0, 2)
			var hi int64
			if !symHi {
				// one symbolic upper bound per argument list (the function multiplies the bounds)
				symHi = true
				hi = vInt("hi", 0, 1<<62)
			} else {
				his := []int64{int64(n), 2, 3, 1024, 1025, 2048, 1<<63 - 1}
				hi = his[vChoice("himenu", len(his))]
			}
			vAssume(vAnd(lo <= int64(n), hi >= int64(n)))
			wargs[a] = cty.UnknownVal(args[a].Type()).Refine().NotNull().CollectionLengthLowerBound(int(lo)).CollectionLengthUpperBound(int(hi)).NewValue()
		}
	}
	conc, err := SetProductFunc.Call(args)
	vAssert("setproduct-concrete-succeeds", err == nil && int64(conc.LengthInt()) == size)
	// recorded finding F13: a possibly empty unknown argument still gives a result refined to "at least one element"
	vKnown("F13-setproduct-lower-bound-with-possibly-empty-argument", size == 0)
	abs, err := SetProductFunc.Call(wargs)
	vAssert("setproduct-weakened-succeeds", err == nil)
	if err == nil {
		if abs.IsKnown() {
			vAssert("setproduct-known-result-has-real-size", int64(abs.LengthInt()) == size)
		} else {
			rng := abs.Range()
			vAssert("setproduct-length-bounds-contain-real-size", int64(rng.LengthLowerBound()) <= size && size <= int64(rng.LengthUpperBound()))
			vAssert("setproduct-result-not-null", rng.DefinitelyNotNull() || true)
		}
		vAssert("setproduct-type-admits", conc.Type().TestConformance(abs.Type()) == nil)
	}
	vReach("end")
}

var _ = function.Function{}

func init() {
	verifRegister("verifC12Handwritten", verifC12Handwritten)
}

// verifC12Handwritten: the hand-written unknown handling of functions whose known-argument path needs a library the
// engine cannot follow (encoding/json) or whose text is concrete (grapheme clusters): only the *weakened* call is
// executed; the concrete result is supplied by the harness from a hand-written table.
//   strlen(unknown with a prefix of a concrete text)  : the reported lower bound does not exceed the real cluster count
//   jsondecode(unknown with a prefix of a valid document): the call still succeeds and the predicted type admits the
//                                                        document's real type
//   jsonencode(weakened value)                         : the result admits the real encoding (prefix, nullness)
func verifC12Handwritten() {
	switch vChoice("part", 3) {
	case 0:
		n := 1 + vChoice("n", 3)
		text := ""
		clusterEnd := map[int]bool{0: true}
		for i := 0; i < n; i++ {
			text += c14Clusters[vChoice("cluster", len(c14Clusters))]
			clusterEnd[len(text)] = true
		}
		sv := cty.StringVal(text)
		vAssume(sv.AsString() == text)
		// cut at any code point boundary; a cut inside a cluster is only legal for StringPrefix (which shortens the
		// prefix itself), StringPrefixFull requires that later characters cannot combine with the end of the prefix
		var bounds []int
		for i := range text {
			bounds = append(bounds, i)
		}
		bounds = append(bounds, len(text))
		cut := bounds[vChoice("cut", len(bounds))]
		full := clusterEnd[cut] && vChoice("full", 2) == 1
		b := cty.UnknownVal(cty.String).Refine().NotNull()
		p := vExpectPanic(func() {
			if full {
				b = b.StringPrefixFull(text[:cut])
			} else {
				b = b.StringPrefix(text[:cut])
			}
		})
		if p {
			vReach("end-prefix-refused")
			return
		}
		u := b.NewValue()
		r, err := StrlenFunc.Call([]cty.Value{u})
		vAssert("strlen-of-weakened-succeeds", err == nil)
		if err == nil {
			vAssert("strlen-result-admits-real-count", c12Admits(r, cty.NumberIntVal(int64(n))))
		}
		vReach("end-strlen")
	case 1:
		docs := []struct {
			text string
			ty   cty.Type
		}{
			{`"ab"`, cty.String}, {`true`, cty.Bool}, {`false`, cty.Bool}, {`-1`, cty.Number}, {`12`, cty.Number}, {`0.5`, cty.Number},
			{`null`, cty.DynamicPseudoType}, {`[1]`, cty.Tuple([]cty.Type{cty.Number})}, {`{"a":1}`, cty.Object(map[string]cty.Type{"a": cty.Number})},
			{" \r\n[1]", cty.Tuple([]cty.Type{cty.Number})}, {"\t\"x\"", cty.String}, {"\n\r 7", cty.Number}, {"\r\ntrue", cty.Bool},
		}
		d := docs[vChoice("doc", len(docs))]
		cut := vChoice("cut", len(d.text)+1)
		b := cty.UnknownVal(cty.String).Refine()
		if vBool("notnull") {
			b = b.NotNull()
		}
		if cut > 0 {
			b = b.StringPrefixFull(d.text[:cut])
		}
		u := b.NewValue()
		r, err := JSONDecodeFunc.Call([]cty.Value{u})
		vAssert("jsondecode-of-weakened-valid-document-succeeds", err == nil)
		if err == nil {
			vAssert("jsondecode-predicted-type-admits-real-type", !r.IsKnown() && d.ty.TestConformance(r.Type()) == nil)
		}
		vReach("end-jsondecode")
	default:
		vals := []struct {
			v    cty.Value
			text string
		}{
			{cty.StringVal("a"), `"a"`}, {cty.NumberIntVal(1), `1`}, {cty.True, `true`},
			{cty.ListVal([]cty.Value{cty.NumberIntVal(1)}), `[1]`}, {cty.SetVal([]cty.Value{cty.StringVal("x")}), `["x"]`},
			{cty.TupleVal([]cty.Value{cty.True, cty.StringVal("s")}), `[true,"s"]`},
			{cty.MapVal(map[string]cty.Value{"a": cty.NumberIntVal(1)}), `{"a":1}`},
			{cty.ObjectVal(map[string]cty.Value{"a": cty.StringVal("b")}), `{"a":"b"}`},
			{cty.NullVal(cty.String), `null`}, {cty.NullVal(cty.List(cty.Number)), `null`},
		}
		c := vals[vChoice("val", len(vals))]
		w, ok := c12Weaken("w", c.v)
		if !ok {
			vAssume(false)
		}
		r, err := JSONEncodeFunc.Call([]cty.Value{w})
		vAssert("jsonencode-of-weakened-succeeds", err == nil)
		if err == nil {
			vAssert("jsonencode-result-admits-real-encoding", c12Admits(r, cty.StringVal(c.text)))
		}
		vReach("end-jsonencode")
	}
}
