//go:build verif

package stdlib

// C14 (string part that the technique reaches): strlen, substr and reverse count and cut in grapheme clusters. The
// text is concrete (a sequence of 0..3 clusters chosen from a menu that includes multi-code-point clusters; the real
// textseg scanner and NFC tables run natively on it); the offset and the length of substr are symbolic numbers, so the
// solver decides every branch of the index arithmetic (negative offsets, offsets past the end, zero and negative
// lengths, fractional and huge values). The reference works on the list of clusters the text was built from.

import (
	"github.com/zclconf/go-cty/cty"
)

func init() {
	verifRegister("verifC14Substr", verifC14Substr)
}

// clusters that the Unicode text segmentation rules keep whole (each is already in NFC)
var c14Clusters = []string{"a", "ȩ́", "\U0001F483\U0001F3FF", "\r\n", "한", "b"}

func verifC14Substr() {
	n := vChoice("n", 4)
	cl := make([]string, n)
	text := ""
	for i := range cl {
		cl[i] = c14Clusters[vChoice("cluster", len(c14Clusters))]
		if i > 0 && cl[i-1] == "\r\n" && false {
			vAssume(false)
		}
		text += cl[i]
	}
	// a cluster that ends in a letter followed by one that starts with a combining mark would merge: the menu has none
	sv := cty.StringVal(text)
	vAssume(sv.AsString() == text) // the text is its own normal form

	l, err := StrlenFunc.Call([]cty.Value{sv})
	vAssert("strlen-counts-grapheme-clusters", err == nil && sIsInt(l, int64(n)))

	r, err := ReverseFunc.Call([]cty.Value{sv})
	rev := ""
	for i := n - 1; i >= 0; i-- {
		rev += cl[i]
	}
	vAssert("reverse-keeps-clusters-whole", err == nil && sIsStr(r, rev))

	off := sNumber("off", 24)
	ln := sNumber("len", 24)
	res, err := SubstrFunc.Call([]cty.Value{sv, off.v, ln.v})
	ow, oi := off.whole()
	lw, li := ln.whole()
	vAssert("substr-fails-exactly-on-non-integer-arguments", (err == nil) == (ow && lw))
	if err == nil && ow && lw {
		start := oi
		if oi < 0 {
			start = int64(n) + oi
			if start < 0 {
				start = 0
			}
		}
		want := ""
		if start < int64(n) {
			end := int64(n)
			if li >= 0 && li < int64(n)-start {
				end = start + li
			}
			for i := start; i < end; i++ {
				want += cl[i]
			}
		}
		vAssert("substr-is-the-cluster-range", sIsStr(res, want))
	}
	vReach("end")
}
