//go:build verif

package stdlib

// C14 — number and bytes functions match reference semantics (the part of the property this technique reaches: the
// numeric functions against exact integer arithmetic on symbolic quarter-integers and infinities, and the byte-buffer
// functions against Go slicing with symbolic offsets and lengths over the whole int range).

import (
	"math/big"

	"github.com/zclconf/go-cty/cty"
	"github.com/zclconf/go-cty/cty/function"
)

func init() {
	verifRegister("verifC14Arith", verifC14Arith)
	verifRegister("verifC14MulDivMod", verifC14MulDivMod)
	verifRegister("verifC14Compare", verifC14Compare)
	verifRegister("verifC14Rounding", verifC14Rounding)
	verifRegister("verifC14RoundingLarge", verifC14RoundingLarge)
	verifRegister("verifC14MinMax", verifC14MinMax)
	verifRegister("verifC14Bytes", verifC14Bytes)
	verifRegister("verifC14Bool", verifC14Bool)
}

const nRange = 1 << 40

// nNum: a quarter-integer k/4 or an infinity.
type nNum struct {
	v   cty.Value
	k   int64
	inf int // 0, +1, -1
}

func nNumber(tag string, rng int64) nNum {
	switch vChoice(tag+"-kind", 3) {
	case 1:
		return nNum{v: cty.PositiveInfinity, inf: 1}
	case 2:
		return nNum{v: cty.NegativeInfinity, inf: -1}
	}
	k := vInt(tag, -rng, rng)
	return nNum{v: sQuarter(k), k: k}
}

func nMenu(tag string) nNum {
	ks := []int64{-12, -2, 0, 1, 3, 8}
	c := vChoice(tag+"-menu", len(ks)+2)
	if c == len(ks) {
		return nNum{v: cty.PositiveInfinity, inf: 1}
	}
	if c == len(ks)+1 {
		return nNum{v: cty.NegativeInfinity, inf: -1}
	}
	return nNum{v: sQuarter(ks[c]), k: ks[c]}
}

func (n nNum) sign() int64 {
	if n.inf != 0 {
		return int64(n.inf)
	}
	return vIte(n.k < 0, -1, vIte(n.k > 0, 1, 0))
}

// nIs: v is the known, non-null number want (a quarter-integer or an infinity).
func nIs(v cty.Value, want nNum) bool {
	if v.Type() != cty.Number || !v.IsKnown() || v.IsNull() {
		return false
	}
	if want.inf > 0 {
		return v.RawEquals(cty.PositiveInfinity)
	}
	if want.inf < 0 {
		return v.RawEquals(cty.NegativeInfinity)
	}
	if v.AsBigFloat().IsInf() {
		return false
	}
	return sIsQuarter(v, want.k)
}

func nNoPanicError(err error) bool {
	_, isPanic := err.(function.PanicError)
	return !isPanic
}

// verifC14Arith: add, subtract, negate, abs against exact arithmetic; opposing infinities are an ordinary error.
func verifC14Arith() {
	a := nNumber("a", nRange)
	b := nNumber("b", nRange)
	r, err := AddFunc.Call([]cty.Value{a.v, b.v})
	vAssert("add-no-internal-panic", nNoPanicError(err))
	if a.inf != 0 && b.inf != 0 && a.inf != b.inf {
		vAssert("add-opposing-infinities-is-error", err != nil)
	} else {
		vAssert("add-succeeds", err == nil)
		if err == nil {
			switch {
			case a.inf != 0:
				vAssert("add", nIs(r, a))
			case b.inf != 0:
				vAssert("add", nIs(r, b))
			default:
				vAssert("add", nIs(r, nNum{k: a.k + b.k}))
			}
		}
	}
	r, err = SubtractFunc.Call([]cty.Value{a.v, b.v})
	vAssert("subtract-no-internal-panic", nNoPanicError(err))
	if a.inf != 0 && b.inf != 0 && a.inf == b.inf {
		vAssert("subtract-same-infinities-is-error", err != nil)
	} else {
		vAssert("subtract-succeeds", err == nil)
		if err == nil {
			switch {
			case a.inf != 0:
				vAssert("subtract", nIs(r, a))
			case b.inf != 0:
				vAssert("subtract", nIs(r, nNum{inf: -b.inf}))
			default:
				vAssert("subtract", nIs(r, nNum{k: a.k - b.k}))
			}
		}
	}
	r, err = NegateFunc.Call([]cty.Value{a.v})
	vAssert("negate", err == nil && nIs(r, nNum{k: -a.k, inf: -a.inf}))
	r, err = AbsoluteFunc.Call([]cty.Value{a.v})
	absInf := a.inf
	if absInf < 0 {
		absInf = 1
	}
	vAssert("abs", err == nil && nIs(r, nNum{k: vIte(a.k < 0, -a.k, a.k), inf: absInf}))
	vReach("end")
}

// verifC14MulDivMod: one symbolic operand, the other from a concrete menu (products of two symbolic numbers are
// nonlinear): multiply exactly; divide: x/0 is a signed infinity, 0/0 and inf/inf are errors, otherwise the quotient q
// satisfies q*b = a; modulo: a - b*trunc(a/b) for finite non-zero b.
func verifC14MulDivMod() {
	a := nNumber("a", 1<<30)
	b := nMenu("b")
	if vChoice("swap", 2) == 1 {
		a, b = b, a
	}
	r, err := MultiplyFunc.Call([]cty.Value{a.v, b.v})
	vAssert("multiply-no-internal-panic", nNoPanicError(err))
	aZero := a.inf == 0 && a.k == 0
	bZero := b.inf == 0 && b.k == 0
	switch {
	case (a.inf != 0 && bZero) || (b.inf != 0 && aZero):
		vAssert("multiply-zero-by-infinity-is-error", err != nil)
	case a.inf != 0 || b.inf != 0:
		vAssert("multiply-infinite", err == nil && nIs(r, nNum{inf: int(a.sign() * b.sign())}))
	default:
		// (ka/4)*(kb/4) = ka*kb/16: compare 4*result (in quarters) with ka*kb
		vAssert("multiply-succeeds", err == nil)
		if err == nil {
			vAssert("multiply", r.Type() == cty.Number && r.IsKnown() && !r.IsNull() && sIsQuarter(r.Multiply(cty.NumberIntVal(4)), a.k*b.k))
		}
	}

	r, err = DivideFunc.Call([]cty.Value{a.v, b.v})
	vAssert("divide-no-internal-panic", nNoPanicError(err))
	switch {
	case (aZero && bZero) || (a.inf != 0 && b.inf != 0):
		vAssert("divide-undefined-is-error", err != nil)
	case bZero:
		vAssert("divide-by-zero-is-signed-infinity", err == nil && nIs(r, nNum{inf: int(a.sign())}))
	case a.inf != 0:
		vAssert("divide-infinity", err == nil && nIs(r, nNum{inf: int(a.sign() * b.sign())}))
	case b.inf != 0:
		vAssert("divide-by-infinity-is-zero", err == nil && nIs(r, nNum{k: 0}))
	default:
		vAssert("divide-succeeds", err == nil)
	}

	if a.inf == 0 && b.inf == 0 && !bZero && a.k%4 == 0 && b.k%4 == 0 {
		ai, bi := a.k/4, b.k/4
		r, err = ModuloFunc.Call([]cty.Value{a.v, b.v})
		vAssert("modulo-integers", err == nil && sIsInt(r, ai%bi))
	} else {
		_, err = ModuloFunc.Call([]cty.Value{a.v, b.v})
		vAssert("modulo-no-internal-panic", nNoPanicError(err))
	}
	vReach("end")
}

func nCmp(a, b nNum) int64 {
	if a.inf != 0 || b.inf != 0 {
		return int64(a.inf - b.inf)
	}
	return vIte(a.k < b.k, -1, vIte(a.k > b.k, 1, 0))
}

// verifC14Compare: the four ordering functions and equal / notequal against integer comparison.
func verifC14Compare() {
	a := nNumber("a", nRange)
	b := nNumber("b", nRange)
	c := nCmp(a, b)
	r, err := LessThanFunc.Call([]cty.Value{a.v, b.v})
	vAssert("lessthan", err == nil && sIsBool(r, c < 0))
	r, err = GreaterThanFunc.Call([]cty.Value{a.v, b.v})
	vAssert("greaterthan", err == nil && sIsBool(r, c > 0))
	r, err = LessThanOrEqualToFunc.Call([]cty.Value{a.v, b.v})
	vAssert("lessthanorequalto", err == nil && sIsBool(r, c <= 0))
	r, err = GreaterThanOrEqualToFunc.Call([]cty.Value{a.v, b.v})
	vAssert("greaterthanorequalto", err == nil && sIsBool(r, c >= 0))
	r, err = EqualFunc.Call([]cty.Value{a.v, b.v})
	vAssert("equal", err == nil && sIsBool(r, c == 0))
	r, err = NotEqualFunc.Call([]cty.Value{a.v, b.v})
	vAssert("notequal", err == nil && sIsBool(r, c != 0))
	vReach("end")
}

// verifC14Rounding: ceil, floor, int (truncation toward zero) and signum on quarter-integers of either sign and on
// infinities (where the functions must at least not crash).
func verifC14Rounding() {
	a := nNumber("a", nRange)
	// floor division of k by 4
	fl := a.k / 4
	fl = vIte(vAnd(a.k%4 != 0, a.k < 0), fl-1, fl)
	ce := vIte(a.k%4 != 0, fl+1, fl)
	tr := a.k / 4 // Go's division truncates toward zero

	r, err := CeilFunc.Call([]cty.Value{a.v})
	vAssert("ceil-no-internal-panic", nNoPanicError(err))
	if a.inf != 0 {
		vAssert("ceil-infinity", err == nil && nIs(r, a))
	} else {
		vAssert("ceil", err == nil && sIsInt(r, ce))
	}
	r, err = FloorFunc.Call([]cty.Value{a.v})
	vAssert("floor-no-internal-panic", nNoPanicError(err))
	if a.inf != 0 {
		vAssert("floor-infinity", err == nil && nIs(r, a))
	} else {
		vAssert("floor", err == nil && sIsInt(r, fl))
	}
	r, err = IntFunc.Call([]cty.Value{a.v})
	vAssert("int-no-internal-panic", nNoPanicError(err))
	if a.inf == 0 {
		vAssert("int-truncates-toward-zero", err == nil && sIsInt(r, tr))
	} else if err == nil {
		vAssert("int-infinity", nIs(r, a))
	}
	r, err = SignumFunc.Call([]cty.Value{a.v})
	vAssert("signum-no-internal-panic", nNoPanicError(err))
	if a.inf == 0 && a.k%4 == 0 {
		vAssert("signum", err == nil && sIsInt(r, a.sign()))
	} else if err == nil {
		// outside the whole numbers the function may refuse; if it answers, the answer is the sign
		vAssert("signum-when-answered", sIsInt(r, a.sign()))
	}
	vReach("end")
}

// verifC14MinMax: min and max of 1..3 numbers; none is an error.
func verifC14MinMax() {
	n := vChoice("n", 4)
	ns := make([]nNum, n)
	vs := make([]cty.Value, n)
	for i := range ns {
		ns[i] = nNumber("x", nRange)
		vs[i] = ns[i].v
	}
	mn, err1 := MinFunc.Call(vs)
	mx, err2 := MaxFunc.Call(vs)
	if n == 0 {
		vAssert("minmax-of-nothing-is-error", err1 != nil && err2 != nil && nNoPanicError(err1) && nNoPanicError(err2))
		vReach("end-empty")
		return
	}
	vAssert("minmax-succeed", err1 == nil && err2 == nil)
	if err1 == nil && err2 == nil {
		lo, hi := ns[0], ns[0]
		for _, x := range ns[1:] {
			if nCmp(x, lo) < 0 {
				lo = x
			}
			if nCmp(x, hi) > 0 {
				hi = x
			}
		}
		vAssert("min", nIs(mn, lo))
		vAssert("max", nIs(mx, hi))
	}
	vReach("end")
}

// verifC14Bytes: byteslen and bytesslice against Go slicing: bytesslice(buf, off, len) = buf[off:off+len], defined
// exactly when off and len are whole, non-negative and off+len <= len(buf) as mathematical integers.
func verifC14Bytes() {
	n := vChoice("n", 4)
	buf := make([]byte, n)
	for i := range buf {
		buf[i] = byte('p' + i)
	}
	bv := BytesVal(buf)
	l, err := BytesLenFunc.Call([]cty.Value{bv})
	vAssert("byteslen", err == nil && sIsInt(l, int64(n)))

	off := sNumber("off", 1<<20)
	ln := sNumber("len", 1<<20)
	r, err := BytesSliceFunc.Call([]cty.Value{bv, off.v, ln.v})
	vAssert("bytesslice-no-internal-panic", nNoPanicError(err))
	ow, oi := off.whole()
	lw, li := ln.whole()
	wantOK := false
	if ow && lw {
		// off + len <= n without overflow: both within [0, n]
		wantOK = vAnd(vAnd(oi >= 0, li >= 0), vAnd(oi <= int64(n), li <= int64(n)-oi))
	}
	vAssert("bytesslice-fails-exactly-outside-domain", (err == nil) == wantOK)
	if err == nil && wantOK {
		vAssert("bytesslice-type", r.Type().Equals(Bytes) && r.IsKnown() && !r.IsNull())
		got := *(r.EncapsulatedValue().(*[]byte))
		vAssert("bytesslice-length", int64(len(got)) == li)
		for i := range got {
			vAssert("bytesslice-content", int64(got[i]) == int64('p')+oi+int64(i))
		}
	}
	vReach("end")
}

// verifC14Bool: not / and / or truth tables.
func verifC14Bool() {
	a, b := vBool("a"), vBool("b")
	r, err := NotFunc.Call([]cty.Value{cty.BoolVal(a)})
	vAssert("not", err == nil && sIsBool(r, !a))
	r, err = AndFunc.Call([]cty.Value{cty.BoolVal(a), cty.BoolVal(b)})
	vAssert("and", err == nil && sIsBool(r, vAnd(a, b)))
	r, err = OrFunc.Call([]cty.Value{cty.BoolVal(a), cty.BoolVal(b)})
	vAssert("or", err == nil && sIsBool(r, vOr(a, b)))
	vReach("end")
}

// verifC14RoundingLarge: ceil, floor and int on non-integers around the 64-bit boundaries: base + k/4 with base one of
// +-2^63, +-2^64, 2^100 (numbers that need more than 64 bits of mantissa; 512-bit precision as parsed numbers have).
func verifC14RoundingLarge() {
	pows := []float64{1 << 63, 1 << 64, 1 << 100} // exact as float64
	neg := vChoice("neg", 2) == 1
	base := new(big.Float).SetPrec(512).SetFloat64(pows[vChoice("exp", len(pows))])
	if neg {
		base.Neg(base)
	}
	k := vInt("k", -(1 << 20), 1<<20)
	f := new(big.Float).SetPrec(512).SetInt64(k)
	f.Quo(f, new(big.Float).SetPrec(512).SetInt64(4))
	f.Add(f, base)
	v := cty.NumberVal(f)
	fl := k / 4
	fl = vIte(vAnd(k%4 != 0, k < 0), fl-1, fl)
	ce := vIte(k%4 != 0, fl+1, fl)
	tr := fl // the value is positive: truncation is the floor
	if neg {
		tr = ce
	}
	minusBase := func(r cty.Value) (int64, bool) {
		if r.Type() != cty.Number || !r.IsKnown() || r.IsNull() {
			return 0, false
		}
		d := new(big.Float).SetPrec(512).Sub(r.AsBigFloat(), base)
		i, acc := d.Int64()
		return i, acc == big.Exact
	}
	r, err := CeilFunc.Call([]cty.Value{v})
	got, ok := int64(0), false
	if err == nil {
		got, ok = minusBase(r)
	}
	vAssert("ceil-large", err == nil && ok && got == ce)
	r, err = FloorFunc.Call([]cty.Value{v})
	ok = false
	if err == nil {
		got, ok = minusBase(r)
	}
	vAssert("floor-large", err == nil && ok && got == fl)
	r, err = IntFunc.Call([]cty.Value{v})
	ok = false
	if err == nil {
		got, ok = minusBase(r)
	}
	vAssert("int-large", err == nil && ok && got == tr)
	vReach("end")
}

func init() {
	verifRegister("verifC14ParseInt", verifC14ParseInt)
}

// verifC14ParseInt: parseint(text, base) on concrete texts with a symbolic base: an error exactly when the base is
// not a whole number in 2..62 or the text is not a numeral of that base; otherwise the value of the numeral
// (reference: a plain digit loop; bases up to 36, where letters are case-insensitive digits).
func verifC14ParseInt() {
	texts := []string{"0", "-1", "7", "10", "ff", "FF", "z", "-zz", "", "+5", " 1", "1_0", "0x1f", "-", "12a", "101"}
	text := texts[vChoice("text", len(texts))]
	base := sNumber("base", 4*70)
	r, err := ParseIntFunc.Call([]cty.Value{cty.StringVal(text), base.v})
	vAssert("parseint-no-internal-panic", nNoPanicError(err))
	bw, bi := base.whole()
	if !bw || bi < 2 || bi > 62 {
		vAssert("parseint-bad-base-is-error", err != nil)
		vReach("end-bad-base")
		return
	}
	if bi <= 36 {
		want, ok := nParseRef(text, bi)
		vAssert("parseint-fails-exactly-when-not-a-numeral", (err == nil) == ok)
		if err == nil && ok {
			vAssert("parseint-value", sIsInt(r, want))
		}
	}
	vReach("end")
}

// nParseRef: the value of text as a numeral of the given base (2..36): an optional sign followed by one or more digits
// 0-9, a-z / A-Z below the base; nothing else.
func nParseRef(text string, base int64) (int64, bool) {
	i := 0
	neg := false
	if i < len(text) && (text[i] == '+' || text[i] == '-') {
		neg = text[i] == '-'
		i++
	}
	if i == len(text) {
		return 0, false
	}
	v := int64(0)
	for ; i < len(text); i++ {
		c := text[i]
		var d int64
		switch {
		case c >= '0' && c <= '9':
			d = int64(c - '0')
		case c >= 'a' && c <= 'z':
			d = int64(c-'a') + 10
		case c >= 'A' && c <= 'Z':
			d = int64(c-'A') + 10
		default:
			return 0, false
		}
		if d >= base {
			return 0, false
		}
		v = v*base + d
	}
	if neg {
		v = -v
	}
	return v, true
}
