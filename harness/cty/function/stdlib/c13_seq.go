//go:build verif

package stdlib

// C13 — collection, set and sequence functions match reference semantics (part 1: index, size and step arithmetic).
//
// Every harness builds its arguments through the public constructors with symbolic scalars (indices, sizes, steps as
// arbitrary quarter-integers k/4, or very large / infinite numbers from a menu), calls the real function through
// Function.Call and compares with a reference computed in plain Go on the same symbolic scalars.

import (
	"math/big"

	"github.com/zclconf/go-cty/cty"
)

func init() {
	verifRegister("verifC13Element", verifC13Element)
	verifRegister("verifC13Slice", verifC13Slice)
	verifRegister("verifC13Chunklist", verifC13Chunklist)
	verifRegister("verifC13Range", verifC13Range)
	verifRegister("verifC13RangeLimit", verifC13RangeLimit)
	verifRegister("verifC13IndexLength", verifC13IndexLength)
}

const sRange = 1 << 36

// sNum: a number argument together with what the reference needs to know about it.
type sNum struct {
	v     cty.Value
	k     int64 // value is k/4 when fin
	fin   bool  // finite and within the quarter range
	huge  int   // 0 no; +1 / -1: finite whole number beyond int64 (positive / negative)
	inf   int   // +1 / -1
	ext   bool  // a whole number outside the quarter range that a Go int still holds: i
	i     int64
}

func sQuarter(k int64) cty.Value {
	f := new(big.Float).SetInt64(k)
	return cty.NumberVal(f.Quo(f, big.NewFloat(4)))
}

// sNumber: a symbolic quarter-integer, or (menu) a whole number just beyond int64, or an infinity.
func sNumber(tag string, rng int64) sNum {
	switch vChoice(tag+"-family", 4) {
	case 1:
		f := new(big.Float).SetPrec(512).SetUint64(1 << 63) // 2^63: one beyond MaxInt64
		if vBool(tag + "-neg") {
			f.Neg(f)
			f.Sub(f, big.NewFloat(1)) // -2^63-1: one beyond MinInt64
			return sNum{v: cty.NumberVal(f), huge: -1}
		}
		return sNum{v: cty.NumberVal(f), huge: 1}
	case 2:
		if vBool(tag + "-neg") {
			return sNum{v: cty.NegativeInfinity, inf: -1}
		}
		return sNum{v: cty.PositiveInfinity, inf: 1}
	case 3:
		// the extreme int64 values themselves
		if vBool(tag + "-neg") {
			return sNum{v: cty.NumberIntVal(-1 << 63)}.withInt(-1 << 63)
		}
		return sNum{v: cty.NumberIntVal(1<<63 - 1)}.withInt(1<<63 - 1)
	}
	k := vInt(tag, -rng, rng)
	return sNum{v: sQuarter(k), k: k, fin: true}
}

// withInt marks n as the whole number i (outside the quarter range, but an int).
func (n sNum) withInt(i int64) sNum {
	n.ext = true
	n.i = i
	return n
}

// whole reports whether the number is a whole number representable as a Go int, and its value.
func (n sNum) whole() (bool, int64) {
	if n.ext {
		return true, n.i
	}
	if !n.fin {
		return false, 0
	}
	return n.k%4 == 0, n.k / 4
}

func sIntOf(v cty.Value) int64 {
	i, _ := v.AsBigFloat().Int64()
	return i
}

// sSeq builds a list or tuple of n distinct concrete members 10, 11, ... (tuples alternate numbers and strings).
// kind: 0 list(number), 1 tuple.
func sSeq(kind, n int) (cty.Value, []cty.Value) {
	ms := make([]cty.Value, n)
	for i := range ms {
		if kind == 1 && i%2 == 1 {
			ms[i] = cty.StringVal(string(rune('k' + i)))
		} else {
			ms[i] = cty.NumberIntVal(int64(10 + i))
		}
	}
	if kind == 1 {
		return cty.TupleVal(ms), ms
	}
	if n == 0 {
		return cty.ListValEmpty(cty.Number), ms
	}
	return cty.ListVal(ms), ms
}

// sMemberIs: v is exactly member j of ms (j may be symbolic; ms are concrete and pairwise different).
func sMemberIs(v cty.Value, ms []cty.Value, j int64) bool {
	for i, m := range ms {
		if v.RawEquals(m) {
			return j == int64(i)
		}
	}
	return false
}

// verifC13Element: element(seq, idx) = seq[idx mod len] with the mathematical (non-negative) modulo; fails exactly
// when idx is not a whole number a Go int can hold, or the sequence is empty.
func verifC13Element() {
	kind := vChoice("kind", 2)
	n := vChoice("n", 4)
	seq, ms := sSeq(kind, n)
	idx := sNumber("idx", sRange)
	r, err := ElementFunc.Call([]cty.Value{seq, idx.v})
	isWhole, i := idx.whole()
	wantOK := isWhole && n > 0
	vAssert("element-fails-exactly-outside-domain", (err == nil) == wantOK)
	if err == nil && wantOK {
		j := i % int64(n)
		j = vIte(j < 0, j+int64(n), j)
		vAssert("element-is-member-at-wrapped-index", sMemberIs(r, ms, j))
		if kind == 0 {
			vAssert("element-type", r.Type() == cty.Number)
		}
	}
	vReach("end")
}

// verifC13Slice: slice(seq, a, b) = seq[a:b]; fails exactly unless a, b are whole with 0 <= a <= b <= len.
func verifC13Slice() {
	kind := vChoice("kind", 2)
	n := vChoice("n", 4)
	seq, ms := sSeq(kind, n)
	a := sNumber("a", sRange)
	b := sNumber("b", sRange)
	r, err := SliceFunc.Call([]cty.Value{seq, a.v, b.v})
	aw, ai := a.whole()
	bw, bi := b.whole()
	wantOK := vAnd(vAnd(aw, bw), vAnd(vAnd(ai >= 0, ai <= bi), bi <= int64(n)))
	vAssert("slice-fails-exactly-outside-domain", (err == nil) == wantOK)
	if err == nil && wantOK {
		vAssert("slice-known", r.IsKnown() && !r.IsNull())
		if kind == 0 {
			vAssert("slice-list-type", r.Type().Equals(cty.List(cty.Number)))
		} else {
			vAssert("slice-tuple-type", r.Type().IsTupleType())
		}
		l := r.LengthInt()
		vAssert("slice-length", int64(l) == bi-ai)
		k := 0
		for it := r.ElementIterator(); it.Next(); k++ {
			_, v := it.Element()
			vAssert("slice-member", sMemberIs(v, ms, ai+int64(k)))
		}
		if kind == 1 {
			etys := r.Type().TupleElementTypes()
			for k, ety := range etys {
				vAssert("slice-tuple-member-type", sMemberIs(r.Index(cty.NumberIntVal(int64(k))), ms, ai+int64(k)) && ety.Equals(r.Index(cty.NumberIntVal(int64(k))).Type()))
			}
		}
	}
	vReach("end")
}

// verifC13Chunklist: chunklist(list, size): fails unless size is a whole non-negative int; size 0 gives the single
// chunk (the whole list) for a non-empty list; otherwise consecutive chunks of exactly size members, the last one
// holding the remainder; the empty list gives the empty list of lists.
func verifC13Chunklist() {
	n := vChoice("n", 5)
	seq, ms := sSeq(0, n)
	size := sNumber("size", sRange)
	r, err := ChunklistFunc.Call([]cty.Value{seq, size.v})
	sw, si := size.whole()
	wantOK := vAnd(sw, si >= 0)
	vAssert("chunklist-fails-exactly-outside-domain", (err == nil) == wantOK)
	if err == nil && wantOK {
		vAssert("chunklist-type", r.Type().Equals(cty.List(cty.List(cty.Number))) && r.IsKnown() && !r.IsNull())
		chunks := r.AsValueSlice()
		if n == 0 {
			vAssert("chunklist-empty", len(chunks) == 0)
		} else if si == 0 {
			vAssert("chunklist-size-zero-is-whole-list", len(chunks) == 1 && chunks[0].RawEquals(seq))
		} else {
			// number of chunks = ceil(n/size)
			want := (int64(n) + si - 1) / si
			if si > int64(n) {
				want = 1
			}
			vAssert("chunklist-count", int64(len(chunks)) == want)
			pos := 0
			for ci, c := range chunks {
				vAssert("chunklist-chunk-type", c.Type().Equals(cty.List(cty.Number)) && c.IsKnown() && !c.IsNull())
				cl := c.LengthInt()
				if ci < len(chunks)-1 {
					vAssert("chunklist-full-chunk", int64(cl) == si)
				} else {
					vAssert("chunklist-last-chunk", cl >= 1 && int64(cl) <= si && pos+cl == n)
				}
				for it := c.ElementIterator(); it.Next(); {
					_, v := it.Element()
					vAssert("chunklist-member-order", pos < n && v.RawEquals(ms[pos]))
					pos++
				}
			}
			vAssert("chunklist-covers-list", pos == n)
		}
	}
	vReach("end")
}

// sIsQuarter: v is the known number k/4.
func sIsQuarter(v cty.Value, k int64) bool {
	if v.Type() != cty.Number || !v.IsKnown() || v.IsNull() {
		return false
	}
	f := new(big.Float).SetPrec(200).Mul(v.AsBigFloat(), big.NewFloat(4))
	i, acc := f.Int64()
	return acc == big.Exact && i == k
}

// verifC13Range: range(...) with one, two or three arguments yields start, start+step, ... strictly before end
// (in the direction of step); a step of zero or a step pointing away from end is an error.
func verifC13Range() {
	nargs := 1 + vChoice("nargs", 3)
	const r = 1 << 20
	var start, end, step int64 // in quarters
	var args []cty.Value
	switch nargs {
	case 1:
		end = vInt("end", -r, r)
		args = []cty.Value{sQuarter(end)}
		step = vIte(end < 0, -4, 4)
	case 2:
		start = vInt("start", -r, r)
		end = vInt("end", -r, r)
		args = []cty.Value{sQuarter(start), sQuarter(end)}
		step = vIte(end < start, -4, 4)
	default:
		start = vInt("start", -r, r)
		end = vInt("end", -r, r)
		step = vInt("step", -r, r)
		args = []cty.Value{sQuarter(start), sQuarter(end), sQuarter(step)}
	}
	// the reference: count members, bounded by 4 (longer results are outside this harness)
	count := vChoice("count", 5)
	if step == 0 {
		_, err := RangeFunc.Call(args)
		vAssert("range-zero-step-is-error", err != nil)
		vReach("end-zero-step")
		return
	}
	if (step > 0 && end < start) || (step < 0 && end > start) {
		_, err := RangeFunc.Call(args)
		vAssert("range-wrong-direction-is-error", err != nil)
		vReach("end-wrong-direction")
		return
	}
	// exactly `count` members: start + (count-1)*step is before end, start + count*step is not
	c := int64(count)
	if step > 0 {
		vAssume(vAnd(count == 0 || start+(c-1)*step < end, start+c*step >= end))
	} else {
		vAssume(vAnd(count == 0 || start+(c-1)*step > end, start+c*step <= end))
	}
	res, err := RangeFunc.Call(args)
	vAssert("range-succeeds", err == nil)
	if err == nil {
		vAssert("range-type", res.Type().Equals(cty.List(cty.Number)) && res.IsKnown() && !res.IsNull())
		vAssert("range-count", res.LengthInt() == count)
		k := int64(0)
		for it := res.ElementIterator(); it.Next(); k++ {
			_, v := it.Element()
			vAssert("range-member", sIsQuarter(v, start+k*step))
		}
	}
	vReach("end")
}

// verifC13RangeLimit: the documented limit: more than 1024 members is an error, exactly 1024 is not.
func verifC13RangeLimit() {
	end := vInt("end", 1022, 1027)
	res, err := RangeFunc.Call([]cty.Value{cty.NumberIntVal(end)})
	vAssert("range-limit", (err == nil) == (end <= 1024))
	if err == nil {
		vAssert("range-limit-count", int64(res.LengthInt()) == end)
	}
	vReach("end")
}

// verifC13IndexLength: length, index and hasindex on lists and tuples with an arbitrary numeric key.
func verifC13IndexLength() {
	kind := vChoice("kind", 2)
	n := vChoice("n", 4)
	seq, ms := sSeq(kind, n)
	key := sNumber("key", sRange)
	kw, ki := key.whole()
	in := vAnd(kw, vAnd(ki >= 0, ki < int64(n)))
	if key.huge != 0 || key.inf != 0 {
		in = false
	}

	l, err := LengthFunc.Call([]cty.Value{seq})
	vAssert("length", err == nil && sIsQuarter(l, int64(4*n)))

	h, err := HasIndexFunc.Call([]cty.Value{seq, key.v})
	vAssert("hasindex-succeeds", err == nil)
	if err == nil {
		vAssert("hasindex", h.Type() == cty.Bool && h.IsKnown() && !h.IsNull() && h.True() == in)
	}
	r, err := IndexFunc.Call([]cty.Value{seq, key.v})
	vAssert("index-fails-exactly-when-absent", (err == nil) == in)
	if err == nil && in {
		vAssert("index-member", sMemberIs(r, ms, ki))
	}
	vReach("end")
}
