//go:build verif

package function

// C10 — the function-call protocol enforces every declared parameter contract.
//
// The specification (parameter flags are symbolic booleans), the argument list and the behaviour of the two
// callbacks are chosen by the engine; the callbacks record what they were given.

import (
	"errors"

	"github.com/zclconf/go-cty/cty"
)

func init() { verifRegister("verifC10Call", verifC10Call) }

func c10ParamType(tag string) cty.Type {
	switch vChoice(tag, 3+vTier()) {
	case 0:
		return cty.String
	case 1:
		return cty.DynamicPseudoType
	case 2:
		return cty.List(cty.String)
	}
	return cty.Number
}

func c10Param(tag string) Parameter {
	return Parameter{
		Name:             tag,
		Type:             c10ParamType(tag + "-type"),
		AllowNull:        vBool(tag + "-null"),
		AllowUnknown:     vBool(tag + "-unknown"),
		AllowDynamicType: vBool(tag + "-dynamic"),
		AllowMarked:      vBool(tag + "-marked"),
	}
}

const c10Mark = "m"
const c10Mark2 = "n"

// c10Arg builds one argument; deepMarks reports the marks it carries at any depth.
func c10Arg(tag string) (cty.Value, int) {
	switch vChoice(tag, 10) {
	case 0:
		return cty.StringVal("x"), 0
	case 1:
		return cty.NumberIntVal(7), 0
	case 2:
		return cty.NullVal(cty.String), 0
	case 3:
		return cty.UnknownVal(cty.String), 0
	case 4:
		return cty.DynamicVal, 0
	case 5:
		return cty.StringVal("x").Mark(c10Mark), 1
	case 6:
		return cty.ListVal([]cty.Value{cty.StringVal("a"), cty.StringVal("b").Mark(c10Mark2)}), 2
	case 7:
		return cty.NullVal(cty.DynamicPseudoType), 0
	case 8:
		return cty.UnknownVal(cty.String).Mark(c10Mark), 1
	}
	return cty.ListVal([]cty.Value{cty.StringVal("a")}), 0
}

func c10HasMark(v cty.Value, which int) bool {
	_, pvm := v.UnmarkDeepWithPaths()
	for _, pm := range pvm {
		for m := range pm.Marks {
			if which == 1 && m == c10Mark {
				return true
			}
			if which == 2 && m == c10Mark2 {
				return true
			}
		}
	}
	return false
}

// c10Offends: does argument v break the contract of parameter p in a way the protocol reports as an ArgError?
func c10Offends(v cty.Value, p Parameter) bool {
	uv, _ := v.UnmarkDeep()
	if uv.IsNull() && !p.AllowNull {
		return true
	}
	if uv.Type() != cty.DynamicPseudoType && uv.Type().TestConformance(p.Type) != nil {
		return true
	}
	return false
}

func verifC10Call() {
	nParams := vChoice("nparams", 2+vTier())
	if vTier() == 0 && nParams == 1 {
		// quick tier: one positional parameter is only combined with a variadic one (the interplay is what matters)
	}
	hasVar := vChoice("hasvar", 2) == 1
	spec := &Spec{}
	for k := 0; k < nParams; k++ {
		spec.Params = append(spec.Params, c10Param([]string{"p0", "p1"}[k]))
	}
	if hasVar {
		vp := c10Param("pv")
		spec.VarParam = &vp
	}
	nArgs := vChoice("nargs", 3+vTier())
	args := make([]cty.Value, nArgs)
	argMarks := make([]int, nArgs)
	for k := range args {
		args[k], argMarks[k] = c10Arg([]string{"a0", "a1", "a2", "a3"}[k])
	}
	paramFor := func(k int) (Parameter, bool) {
		if k < len(spec.Params) {
			return spec.Params[k], true
		}
		if spec.VarParam != nil {
			return *spec.VarParam, true
		}
		return Parameter{}, false
	}

	// callback behaviours are symbolic so that they fork only when a callback actually runs
	typeBehaviour := vInt("type-behaviour", 0, 2)
	implBehaviour := vInt("impl-behaviour", 0, 4)
	withRefine := vBool("refine")
	typeRan, typeAccepted, implRan := false, false, false
	var typeArgs, implArgs []cty.Value
	retType := cty.String
	spec.Type = func(a []cty.Value) (cty.Type, error) {
		typeRan = true
		typeArgs = a
		switch typeBehaviour {
		case 1:
			return cty.NilType, errors.New("type check failed")
		case 2:
			panic("type callback panics")
		}
		typeAccepted = true
		return retType, nil
	}
	spec.Impl = func(a []cty.Value, rt cty.Type) (cty.Value, error) {
		implRan = true
		implArgs = a
		vAssert("impl-after-accepting-typecheck", typeRan && typeAccepted)
		vAssert("impl-gets-checked-type", rt == retType)
		switch implBehaviour {
		case 1:
			return cty.NilVal, errors.New("impl failed")
		case 2:
			panic("impl callback panics")
		case 3:
			return cty.NumberIntVal(1), nil // does not conform to the checked return type
		case 4:
			// an unknown result that already carries a refinement (the call's own RefineResult comes on top)
			return cty.UnknownVal(cty.String).Refine().StringPrefixFull("re").NewValue(), nil
		}
		return cty.StringVal("result"), nil
	}
	if withRefine {
		spec.RefineResult = func(b *cty.RefinementBuilder) *cty.RefinementBuilder { return b.NotNull() }
	}
	f := New(spec)

	var res cty.Value
	var err error
	panicked := vExpectPanic(func() { res, err = f.Call(args) })
	vAssert("call-does-not-panic", !panicked)
	if panicked {
		return
	}

	countOK := nArgs == nParams || (hasVar && nArgs >= nParams)
	if !countOK {
		vAssert("wrong-count-is-error", err != nil && !typeRan && !implRan)
		vReach("end-count")
		return
	}

	if implRan {
		vAssert("impl-sees-all-args", len(implArgs) == nArgs)
		for k := 0; k < nArgs && k < len(implArgs); k++ {
			p, _ := paramFor(k)
			a := implArgs[k]
			vAssert("impl-arg-conforms", a.Type() == cty.DynamicPseudoType || a.Type().TestConformance(p.Type) == nil)
			vAssert("impl-arg-null-only-if-allowed", !a.IsNull() || p.AllowNull)
			vAssert("impl-arg-unknown-only-if-allowed", a.IsKnown() || p.AllowUnknown)
			vAssert("impl-arg-dynamic-only-if-allowed", a.Type() != cty.DynamicPseudoType || p.AllowDynamicType)
			vAssert("impl-arg-marked-only-if-allowed", !a.ContainsMarked() || p.AllowMarked)
		}
	}
	if typeRan {
		for k := 0; k < nArgs && k < len(typeArgs); k++ {
			p, _ := paramFor(k)
			vAssert("type-arg-marked-only-if-allowed", !typeArgs[k].ContainsMarked() || p.AllowMarked)
		}
	}

	if err != nil {
		var ae ArgError
		if errors.As(err, &ae) {
			inRange := ae.Index >= 0 && ae.Index < nArgs
			vAssert("argerror-index-in-range", inRange)
			if inRange {
				p, _ := paramFor(ae.Index)
				vKnown("F1-variadic-argerror-index", hasVar && ae.Index < nArgs-nParams && ae.Index+nParams < nArgs && func() bool {
					pv := *spec.VarParam
					return c10Offends(args[ae.Index+nParams], pv)
				}())
				vAssert("argerror-names-offending-argument", c10Offends(args[ae.Index], p))
			}
			vAssert("argerror-before-callbacks", !implRan)
		}
		var pe PanicError
		if errors.As(err, &pe) {
			vAssert("panicerror-only-from-callback", (typeRan && typeBehaviour == 2) || (implRan && (implBehaviour == 2 || implBehaviour == 3)))
		}
		if typeRan && typeBehaviour == 2 {
			vAssert("type-panic-is-panicerror", errors.As(err, &pe))
		}
		if implRan && implBehaviour == 2 {
			vAssert("impl-panic-is-panicerror", errors.As(err, &pe))
		}
		vReach("end-error")
		return
	}

	// success
	vAssert("success-needs-accepting-typecheck-or-dynamic", typeAccepted || res.Type() == cty.DynamicPseudoType)
	if implRan {
		vAssert("nonconforming-result-never-returned", implBehaviour == 0 || implBehaviour == 4)
	}
	// marks of arguments the function does not handle itself are on the result
	_, resMarks := res.Unmark()
	for k := 0; k < nArgs; k++ {
		p, _ := paramFor(k)
		if !p.AllowMarked && argMarks[k] != 0 {
			want := c10Mark
			if argMarks[k] == 2 {
				want = c10Mark2
			}
			_, has := resMarks[want]
			vAssert("unhandled-marks-on-result", has)
		}
	}
	anyMark1, anyMark2 := false, false
	for k := range args {
		if argMarks[k] == 1 {
			anyMark1 = true
		}
		if argMarks[k] == 2 {
			anyMark2 = true
		}
	}
	for m := range resMarks {
		vAssert("no-invented-marks", (m == c10Mark && anyMark1) || (m == c10Mark2 && anyMark2))
	}
	ures, _ := res.Unmark()
	if !implRan {
		vAssert("short-circuit-is-unknown", !ures.IsKnown())
		if typeAccepted {
			vAssert("short-circuit-has-checked-type", ures.Type() == retType)
		} else {
			vAssert("short-circuit-dynamic", ures.Type() == cty.DynamicPseudoType)
		}
	} else {
		vAssert("result-conforms", ures.Type().TestConformance(retType) == nil)
	}
	if withRefine && ures.Type() != cty.DynamicPseudoType && !ures.IsKnown() {
		vAssert("result-refinement-applied", ures.Range().DefinitelyNotNull())
	}
	vReach("end-ok")
}
