//go:build verif

package cty

// Deep well-formedness check of a Value against its type (C06). VerifWellFormed inspects the payload representation
// directly; VerifAccessorsWork is the public-API twin (every accessor applicable to the type succeeds).

import (
	"math/big"

	"github.com/zclconf/go-cty/cty/set"
)

// VerifWellFormed returns "" when v is internally consistent with its type, otherwise a short reason.
func VerifWellFormed(v Value) string {
	if v.ty.typeImpl == nil {
		return "nil type"
	}
	return wfPayload(v.ty, v.v, true)
}

func wfTypeNoOptional(t Type) bool {
	switch {
	case t.IsCollectionType():
		return wfTypeNoOptional(t.ElementType())
	case t.IsTupleType():
		for _, e := range t.TupleElementTypes() {
			if !wfTypeNoOptional(e) {
				return false
			}
		}
	case t.IsObjectType():
		if len(t.OptionalAttributes()) != 0 {
			return false
		}
		for _, e := range t.AttributeTypes() {
			if !wfTypeNoOptional(e) {
				return false
			}
		}
	}
	return true
}

func wfPayload(ty Type, p interface{}, markerAllowed bool) string {
	if !wfTypeNoOptional(ty) {
		return "type carries optional-attribute annotations"
	}
	if m, ok := p.(marker); ok {
		if !markerAllowed {
			return "marked value where none is allowed (nested marker or set member)"
		}
		if len(m.marks) == 0 {
			return "marker without marks"
		}
		if _, nested := m.realV.(marker); nested {
			return "two layers of marks"
		}
		return wfPayload(ty, m.realV, false)
	}
	if p == nil {
		return "" // null of any type
	}
	if u, ok := p.(*unknownType); ok {
		if u == nil {
			return "nil unknown"
		}
		switch r := u.refinement.(type) {
		case nil:
		case *refinementString:
			if ty != String {
				return "string refinement on non-string"
			}
		case *refinementNumber:
			if ty != Number {
				return "number refinement on non-number"
			}
			if r.min != NilVal && (r.min.ty != Number || !r.min.IsKnown()) {
				return "number refinement lower bound not a known number"
			}
			if r.max != NilVal && (r.max.ty != Number || !r.max.IsKnown()) {
				return "number refinement upper bound not a known number"
			}
		case *refinementCollection:
			if !ty.IsCollectionType() {
				return "collection refinement on non-collection"
			}
			if r.minLen < 0 || r.maxLen < r.minLen {
				return "collection refinement with inconsistent length bounds"
			}
		case *refinementNullable:
			if ty == String || ty == Number || ty.IsCollectionType() {
				return "generic refinement on a type that has a specific one"
			}
			if ty == DynamicPseudoType {
				return "refined unknown of the placeholder type"
			}
		default:
			return "unrecognised refinement"
		}
		return ""
	}
	// known, non-null
	switch {
	case ty == DynamicPseudoType:
		return "known value of the placeholder type"
	case ty == String:
		s, ok := p.(string)
		if !ok {
			return "string payload is not a Go string"
		}
		if NormalizeString(s) != s {
			return "string is not NFC-normalized"
		}
	case ty == Number:
		f, ok := p.(*big.Float)
		if !ok || f == nil {
			return "number payload is not a *big.Float"
		}
	case ty == Bool:
		if _, ok := p.(bool); !ok {
			return "bool payload is not a Go bool"
		}
	case ty.IsListType():
		l, ok := p.([]interface{})
		if !ok {
			return "list payload is not a slice"
		}
		for _, e := range l {
			if r := wfPayload(ty.ElementType(), e, true); r != "" {
				return "list element: " + r
			}
		}
	case ty.IsTupleType():
		l, ok := p.([]interface{})
		if !ok {
			return "tuple payload is not a slice"
		}
		ets := ty.TupleElementTypes()
		if len(l) != len(ets) {
			return "tuple length differs from its type"
		}
		for i, e := range l {
			if r := wfPayload(ets[i], e, true); r != "" {
				return "tuple element: " + r
			}
		}
	case ty.IsMapType():
		m, ok := p.(map[string]interface{})
		if !ok {
			return "map payload is not a Go map"
		}
		for k, e := range m {
			if NormalizeString(k) != k {
				return "map key is not NFC-normalized"
			}
			if r := wfPayload(ty.ElementType(), e, true); r != "" {
				return "map element: " + r
			}
		}
	case ty.IsObjectType():
		m, ok := p.(map[string]interface{})
		if !ok {
			return "object payload is not a Go map"
		}
		atys := ty.AttributeTypes()
		if len(m) != len(atys) {
			return "object attribute set differs from its type"
		}
		for name, aty := range atys {
			e, ok := m[name]
			if !ok {
				return "object lacks an attribute of its type"
			}
			if NormalizeString(name) != name {
				return "attribute name is not NFC-normalized"
			}
			if r := wfPayload(aty, e, true); r != "" {
				return "attribute: " + r
			}
		}
	case ty.IsSetType():
		s, ok := p.(set.Set[interface{}])
		if !ok {
			return "set payload is not a set.Set"
		}
		rules, ok := s.Rules().(setRules)
		if !ok {
			return "set rules are not cty's"
		}
		if !rules.Type.Equals(ty.ElementType()) {
			return "set rules element type differs from the set type"
		}
		vals := s.Values()
		for i, e := range vals {
			if r := wfPayload(ty.ElementType(), e, false); r != "" {
				return "set member: " + r
			}
			for _, o := range vals[:i] {
				if rules.Equivalent(e, o) {
					return "set holds duplicate members"
				}
			}
		}
	case ty.IsCapsuleType():
		// payload is a pointer to the encapsulated Go type; nothing further is inspected here
	default:
		return "unsupported type"
	}
	return ""
}

// VerifAccessorsWork exercises every accessor applicable to v's type through the public API and reports whether all
// of them returned without panicking and consistently with each other.
func VerifAccessorsWork(v Value) (ok bool) {
	defer func() {
		if r := recover(); r != nil {
			if _, isAssume := r.(verifAssumeFailed); isAssume {
				panic(r)
			}
			ok = false
		}
	}()
	return wfAccess(v)
}

func wfAccess(v Value) bool {
	_ = v.Marks()
	v, _ = v.Unmark()
	if v.IsMarked() {
		return false
	}
	ty := v.Type()
	_ = ty.FriendlyName()
	if !v.IsKnown() {
		r := v.Range()
		_ = r.DefinitelyNotNull()
		_ = r.TypeConstraint()
		switch {
		case ty == Number:
			r.NumberLowerBound()
			r.NumberUpperBound()
		case ty == String:
			_ = r.StringPrefix()
		case ty.IsCollectionType():
			if r.LengthLowerBound() < 0 || r.LengthUpperBound() < r.LengthLowerBound() {
				return false
			}
		}
		return true
	}
	if v.IsNull() {
		return true
	}
	switch {
	case ty == String:
		_ = v.AsString()
	case ty == Number:
		if v.AsBigFloat() == nil {
			return false
		}
	case ty == Bool:
		_ = v.True()
	case ty.IsListType() || ty.IsTupleType() || ty.IsSetType():
		n := v.LengthInt()
		vals := v.AsValueSlice()
		if len(vals) != n {
			return false
		}
		k := 0
		for it := v.ElementIterator(); it.Next(); k++ {
			_, ev := it.Element()
			var wantTy Type
			if ty.IsTupleType() {
				wantTy = ty.TupleElementType(k)
			} else {
				wantTy = ty.ElementType()
			}
			et, _ := ev.Unmark()
			if len(et.Type().TestConformance(wantTy)) != 0 && !(wantTy == DynamicPseudoType) {
				return false
			}
			if ty.IsSetType() && ev.IsMarked() {
				return false
			}
			if !wfAccess(ev) {
				return false
			}
		}
		if k != n {
			return false
		}
	case ty.IsMapType():
		m := v.AsValueMap()
		if len(m) != v.LengthInt() {
			return false
		}
		for k, ev := range m {
			if !v.HasIndex(StringVal(k)).True() {
				return false
			}
			et, _ := ev.Unmark()
			if len(et.Type().TestConformance(ty.ElementType())) != 0 {
				return false
			}
			if !wfAccess(ev) {
				return false
			}
		}
	case ty.IsObjectType():
		for name, aty := range ty.AttributeTypes() {
			av := v.GetAttr(name)
			at, _ := av.Unmark()
			if len(at.Type().TestConformance(aty)) != 0 {
				return false
			}
			if !wfAccess(av) {
				return false
			}
		}
		if len(v.AsValueMap()) != len(ty.AttributeTypes()) && len(ty.AttributeTypes()) != 0 {
			return false
		}
	}
	return true
}
