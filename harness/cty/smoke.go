//go:build verif

package cty

func init() { verifRegister("verifSmoke", verifSmoke) }

func verifSmoke() {
	a := vInt("a", -100, 100)
	b := vInt("b", -100, 100)
	x := NumberIntVal(a)
	y := NumberIntVal(b)
	s := x.Add(y)
	vAssert("sum", s.RawEquals(NumberIntVal(a+b)))
	lt := x.LessThan(y)
	vAssert("lt", lt.True() == (a < b))
	vObserve("a", a)
	vReach("end")
}
