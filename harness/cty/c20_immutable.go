//go:build verif

package cty

// C20 — values are immutable and operations are pure functions of their operands (sequential half; goroutine
// schedules are outside what this technique decides).

import (
	"math/big"
)

func init() {
	verifRegister("verifC20Alias", verifC20Alias)
	verifRegister("verifC20Refine", verifC20Refine)
	verifRegister("verifC20ValueSet", verifC20ValueSet)
	verifRegister("verifC20Pure", verifC20Pure)
}

// c20SameRange: two unknown values report the same range.
func c20SameRange(a, b Value) bool {
	if !a.Type().Equals(b.Type()) || a.IsKnown() != b.IsKnown() {
		return false
	}
	if a.IsKnown() {
		return a.RawEquals(b)
	}
	if a.Type() == DynamicPseudoType {
		return true
	}
	ra, rb := a.Range(), b.Range()
	if ra.DefinitelyNotNull() != rb.DefinitelyNotNull() {
		return false
	}
	switch {
	case a.Type() == Number:
		la, lai := ra.NumberLowerBound()
		lb, lbi := rb.NumberLowerBound()
		ha, hai := ra.NumberUpperBound()
		hb, hbi := rb.NumberUpperBound()
		return la.RawEquals(lb) && lai == lbi && ha.RawEquals(hb) && hai == hbi
	case a.Type() == String:
		return ra.StringPrefix() == rb.StringPrefix()
	case a.Type().IsCollectionType():
		return ra.LengthLowerBound() == rb.LengthLowerBound() && ra.LengthUpperBound() == rb.LengthUpperBound()
	}
	return true
}

// c20Same: v still is what a freshly built reference says (content, marks at every depth, ranges of unknowns).
func c20Same(v, ref Value) bool {
	uv, pv := v.UnmarkDeepWithPaths()
	ur, pr := ref.UnmarkDeepWithPaths()
	if len(pv) != len(pr) {
		return false
	}
	for i := range pv {
		found := false
		for j := range pr {
			if pv[i].Path.Equals(pr[j].Path) && pv[i].Marks.Equal(pr[j].Marks) {
				found = true
			}
		}
		if !found {
			return false
		}
	}
	if !uv.Type().Equals(ur.Type()) {
		return false
	}
	if !uv.IsKnown() || !ur.IsKnown() {
		return c20SameRange(uv, ur)
	}
	return uv.RawEquals(ur)
}

// Mutating Go data that was passed to a constructor or returned by an accessor never changes an existing value.
func verifC20Alias() {
	k := vInt("k", -5, 5)
	switch vChoice("case", 12) {
	case 0: // number returned by AsBigFloat
		v := NumberIntVal(k)
		f := v.AsBigFloat()
		f.SetInt64(99)
		f.Neg(f)
		vAssert("asbigfloat-copy", v.RawEquals(NumberIntVal(k)))
	case 1: // mark set returned by Marks
		v := NumberIntVal(k).Mark("m")
		ms := v.Marks()
		ms["x"] = struct{}{}
		delete(ms, "m")
		vAssert("marks-copy", c20Same(v, NumberIntVal(k).Mark("m")))
	case 2: // mark set passed to WithMarks (one or two sets, receiver marked or not)
		ms := NewValueMarks("m")
		base := NumberIntVal(k)
		if vChoice("premarked", 2) == 1 {
			base = base.Mark("p")
		}
		var v Value
		two := vChoice("two", 2) == 1
		if two {
			v = base.WithMarks(ms, NewValueMarks("n"))
		} else {
			v = base.WithMarks(ms)
		}
		ref := base.Mark("m")
		if two {
			ref = ref.Mark("n")
		}
		ms["x"] = struct{}{}
		delete(ms, "m")
		vAssert("withmarks-copy", c20Same(v, ref))
	case 3: // mark sets returned by Unmark / UnmarkDeep, then re-applied
		v := NumberIntVal(k).Mark("m")
		_, ms := v.Unmark()
		w := NumberIntVal(1).WithMarks(ms)
		ms["x"] = struct{}{}
		vAssert("unmark-copy", c20Same(v, NumberIntVal(k).Mark("m")) && c20Same(w, NumberIntVal(1).Mark("m")))
	case 4: // slice passed to ListVal / TupleVal / SetVal
		elems := []Value{NumberIntVal(k), NumberIntVal(k + 1)}
		which := vChoice("ctor", 3)
		var v Value
		mk := func(es []Value) Value {
			switch which {
			case 0:
				return ListVal(es)
			case 1:
				return TupleVal(es)
			}
			return SetVal(es)
		}
		v = mk(elems)
		elems[0] = NumberIntVal(77)
		elems[1] = StringVal("x")
		vAssert("ctor-slice-copy", c20Same(v, mk([]Value{NumberIntVal(k), NumberIntVal(k + 1)})))
	case 5: // map passed to MapVal / ObjectVal
		m := map[string]Value{"a": NumberIntVal(k), "b": NumberIntVal(2)}
		obj := vChoice("object", 2) == 1
		mk := func(m map[string]Value) Value {
			if obj {
				return ObjectVal(m)
			}
			return MapVal(m)
		}
		v := mk(m)
		m["a"] = NumberIntVal(77)
		delete(m, "b")
		m["c"] = True
		vAssert("ctor-map-copy", c20Same(v, mk(map[string]Value{"a": NumberIntVal(k), "b": NumberIntVal(2)})))
	case 6: // slices and maps returned by accessors
		l := ListVal([]Value{NumberIntVal(k), NumberIntVal(2)})
		s := l.AsValueSlice()
		s[0] = NumberIntVal(77)
		o := ObjectVal(map[string]Value{"a": NumberIntVal(k)})
		m := o.AsValueMap()
		m["a"] = NumberIntVal(77)
		m["z"] = True
		vAssert("accessor-copies", c20Same(l, ListVal([]Value{NumberIntVal(k), NumberIntVal(2)})) && c20Same(o, ObjectVal(map[string]Value{"a": NumberIntVal(k)})))
	case 7: // (types: Object/Tuple document that ownership of the map/slice passes to the library and that the
		// accessor results are read-only views, so mutating those is outside the promise; nothing to check)
	case 8: // a ValueSet handed to SetValFromValueSet, and the one returned by AsValueSet
		vs := NewValueSet(Number)
		vs.Add(NumberIntVal(k))
		vs.Add(NumberIntVal(k + 1))
		sv := SetValFromValueSet(vs)
		vs.Remove(NumberIntVal(k))
		vs.Add(NumberIntVal(50))
		back := sv.AsValueSet()
		back.Remove(NumberIntVal(k + 1))
		back.Add(NumberIntVal(60))
		vAssert("valueset-copy", c20Same(sv, SetVal([]Value{NumberIntVal(k), NumberIntVal(k + 1)})))
	case 9: // operations never modify their operands
		a, b := NumberIntVal(k), NumberIntVal(3)
		l := ListVal([]Value{a, b})
		_ = a.Add(b)
		_ = a.Multiply(b)
		_ = a.Negate()
		_ = l.Index(Zero)
		_ = l.Length()
		_ = l.Equals(ListVal([]Value{b, a}))
		_, _ = l.Mark("m").UnmarkDeep()
		vAssert("operands-unchanged", c20Same(a, NumberIntVal(k)) && c20Same(b, NumberIntVal(3)) && c20Same(l, ListVal([]Value{NumberIntVal(k), NumberIntVal(3)})))
	case 10: // the number given to NumberVal may not be mutated by the caller, but results of arithmetic are fresh
		a := NumberIntVal(k)
		sum := a.Add(Zero)
		neg := a.Negate().Negate()
		f := sum.AsBigFloat()
		f.SetInt64(1234)
		g := new(big.Float).Copy(neg.AsBigFloat())
		g.SetInt64(4321)
		vAssert("results-fresh", c20Same(a, NumberIntVal(k)) && c20Same(sum, NumberIntVal(k)) && c20Same(neg, NumberIntVal(k)))
	case 11: // marks on nested members: Mark/Unmark on a derived value leave the source alone
		inner := NumberIntVal(k).Mark("m")
		l := ListVal([]Value{inner, NumberIntVal(2)})
		u, pvm := l.UnmarkDeepWithPaths()
		for i := range pvm {
			pvm[i].Marks["x"] = struct{}{}
		}
		_ = u.Mark("outer")
		_ = l.Mark("outer2")
		vAssert("nested-marks-unchanged", c20Same(l, ListVal([]Value{NumberIntVal(k).Mark("m"), NumberIntVal(2)})))
	}
	vReach("end")
}

// Refining an already refined unknown value yields a new value and leaves the original as it was.
func verifC20Refine() {
	kind := vChoice("kind", 4)
	lo := vInt("lo", 0, 3)
	mk := func() Value {
		switch kind {
		case 0:
			return UnknownVal(Number).Refine().NumberRangeLowerBound(NumberIntVal(lo), true).NewValue()
		case 1:
			return UnknownVal(String).Refine().StringPrefixFull("a").NewValue()
		case 2:
			return UnknownVal(List(String)).Refine().CollectionLengthLowerBound(int(lo)).NewValue()
		}
		return UnknownVal(Map(Number)).Refine().CollectionLengthUpperBound(int(lo) + 4).NewValue()
	}
	v := mk()
	b := v.Refine()
	var d Value
	switch vChoice("again", 3) {
	case 0:
		d = b.NotNull().NewValue()
	case 1:
		switch kind {
		case 0:
			d = b.NumberRangeUpperBound(NumberIntVal(lo+5), false).NewValue()
		case 1:
			d = b.StringPrefixFull("ab").NewValue()
		default:
			d = b.CollectionLengthUpperBound(int(lo) + 2).NotNull().NewValue()
		}
	case 2:
		switch kind {
		case 0:
			d = b.NumberRangeLowerBound(NumberIntVal(lo+1), false).NotNull().NewValue()
		case 1:
			d = b.NotNull().StringPrefixFull("abb").NewValue()
		default:
			d = b.CollectionLengthLowerBound(int(lo) + 1).NewValue()
		}
	}
	vAssert("refined-source-unchanged", c20SameRange(v, mk()))
	// the derived value is usable and a second derivation from the source is independent of the first
	d2 := v.Refine().NotNull().NewValue()
	vAssert("second-derivation", d2.Range().DefinitelyNotNull() && c20SameRange(v, mk()))
	_ = d
	vReach("end")
}

// ValueSets are mutable helpers; copies and set values built from them are independent. Unknown values of one type
// all share a hash bucket, which is what makes shared bucket storage observable.
func verifC20ValueSet() {
	n := 1 + vChoice("n", 4)
	mkU := func(i int) Value {
		return UnknownVal(Number).Refine().NumberRangeLowerBound(NumberIntVal(int64(i)), true).NewValue()
	}
	s := NewValueSet(Number)
	for i := 0; i < n; i++ {
		s.Add(mkU(i))
	}
	var c ValueSet
	var sv Value
	asValue := vChoice("derived", 2) == 1
	if asValue {
		sv = SetValFromValueSet(s)
	} else {
		c = s.Copy()
	}
	steps := 2
	if vTier() > 0 {
		steps = 3
	}
	ns, nc := n, n
	has7s, has7c := false, false
	seven := NumberIntVal(7)
	for step := 0; step < steps; step++ {
		onCopy := !asValue && vChoice("which", 2) == 1
		// an unknown member is never equivalent to anything (not even itself), so adding one always appends to the
		// shared '?' bucket; the known member 7 can be added and removed
		switch vChoice("op", 3) {
		case 0:
			x := mkU(10 + step)
			if onCopy {
				c.Add(x)
				nc++
			} else {
				s.Add(x)
				ns++
			}
		case 1:
			if onCopy {
				c.Add(seven)
				if !has7c {
					nc++
				}
				has7c = true
			} else {
				s.Add(seven)
				if !has7s {
					ns++
				}
				has7s = true
			}
		case 2:
			if onCopy {
				c.Remove(seven)
				if has7c {
					nc--
				}
				has7c = false
			} else {
				s.Remove(seven)
				if has7s {
					ns--
				}
				has7s = false
			}
		}
		vAssert("source-length", s.Length() == ns)
		if asValue {
			vAssert("set-value-unchanged", sv.LengthInt() == n)
			for i := 0; i < n; i++ {
				found := false
				for it := sv.ElementIterator(); it.Next(); {
					_, ev := it.Element()
					if c20SameRange(ev, mkU(i)) {
						found = true
					}
				}
				vAssert("set-value-members", found)
			}
		} else {
			vAssert("copy-length", c.Length() == nc && c.Has(seven) == has7c && s.Has(seven) == has7s)
			// the original members are still there, in both sets, with their own refinements
			for i := 0; i < n; i++ {
				fs, fc := false, false
				for _, ev := range s.Values() {
					fs = fs || c20SameRange(ev, mkU(i))
				}
				for _, ev := range c.Values() {
					fc = fc || c20SameRange(ev, mkU(i))
				}
				vAssert("members-kept", fs && fc)
			}
		}
	}
	vReach("end")
}

// c20PureLeaf: a member that is known (one of two values), unknown or null.
func c20PureLeaf(tag string) Value {
	switch vChoice(tag, 4) {
	case 0:
		return NumberIntVal(1)
	case 1:
		return NumberIntVal(2)
	case 2:
		return UnknownVal(Number)
	}
	return NullVal(Number)
}

// Every operation is a function of its operands: repeating a call gives an equal result whatever order Go happens
// to iterate maps in (each range over a map is an independent symbolic choice of order here).
func verifC20Pure() {
	object := vChoice("object", 2) == 1
	mk := func(tag string) Value {
		m := map[string]Value{"a": c20PureLeaf(tag + "a"), "b": c20PureLeaf(tag + "b")}
		if object {
			return ObjectVal(m)
		}
		return MapVal(m)
	}
	x, y := mk("x"), mk("y")
	op := vChoice("op", 4)
	var r1, r2 Value
	// the first call runs under every iteration order of every map it ranges over (one order per map), the second
	// under the insertion order
	vMapOrder(true)
	switch op {
	case 0:
		r1 = x.Equals(y)
	case 1:
		r1 = BoolVal(x.RawEquals(y))
	case 2:
		r1 = x.NotEqual(y)
	case 3:
		r1 = NumberIntVal(int64(x.Hash()))
	}
	vMapOrder(false)
	switch op {
	case 0:
		r2 = x.Equals(y)
	case 1:
		r2 = BoolVal(x.RawEquals(y))
	case 2:
		r2 = y.NotEqual(x)
	case 3:
		r2 = NumberIntVal(int64(x.Hash()))
	}
	vKnown("F11-equals-depends-on-map-iteration-order", op != 1 && op != 3)
	vAssert("repeatable", c03SameAnswer(r1, r2) || (op == 3 && r1.RawEquals(r2)))
	vReach("end")
}
