//go:build verif

package cty

// C03 — equality is a coherent equivalence that agrees with hashing and sets (cty level; the generic set package is
// driven by harness/cty/set/c03_set.go).

import (
	"math/big"
)

func init() {
	verifRegister("verifC03Scalars", verifC03Scalars)
	verifRegister("verifC03Struct", verifC03Struct)
	verifRegister("verifC03CtySet", verifC03CtySet)
	verifRegister("verifC03ValueSet", verifC03ValueSet)
}

// c03Num: the number k/4 created at one of three precisions (64 like NumberIntVal, 53 like NumberFloatVal, 512 like
// a parsed number); numerically equal values of different precision are distinct Go objects that must compare equal.
func c03Num(tag string, k int64) Value { return c03NumP(vChoice(tag+"-prec", 3), k) }

func c03NumP(prec int, k int64) Value {
	var f *big.Float
	switch prec {
	case 0:
		f = new(big.Float).SetInt64(k)
	case 1:
		f = new(big.Float).SetPrec(53).SetInt64(k)
	default:
		f = new(big.Float).SetPrec(512).SetInt64(k)
	}
	return NumberVal(f.Quo(f, new(big.Float).SetInt64(4)))
}

type c03Leaf struct {
	v    Value
	kind int   // 0 known, 1 null, 2 unknown, 3 +inf, 4 -inf
	k    int64 // numbers: numerator of k/4; bools: 0/1; strings: index
	s    string
}

// c03Scalar draws a value of the given family (0 number, 1 string, 2 bool).
func c03Scalar(tag string, family int) c03Leaf {
	ty := []Type{Number, String, Bool}[family]
	nk := 3
	if family == 0 {
		nk = 6
	}
	kind := vChoice(tag+"-kind", nk)
	switch kind {
	case 5:
		// concrete corner menu: large integers whose decimal text depends on the precision they were created at
		// (2^100 as a float64-derived number and as exactly parsed decimals), run through the real math/big
		switch vChoice(tag+"-big", 4) {
		case 0:
			return c03Leaf{v: NumberFloatVal(1267650600228229401496703205376.0), kind: 5, k: 0}
		case 1:
			return c03Leaf{v: MustParseNumberVal("1267650600228229401496703205376"), kind: 5, k: 0}
		case 2:
			return c03Leaf{v: MustParseNumberVal("1267650600228229401496703205377"), kind: 5, k: 1}
		}
		return c03Leaf{v: NumberFloatVal(-1267650600228229401496703205376.0), kind: 5, k: -1}
	case 1:
		return c03Leaf{v: NullVal(ty), kind: 1}
	case 2:
		return c03Leaf{v: UnknownVal(ty), kind: 2}
	case 3:
		return c03Leaf{v: PositiveInfinity, kind: 3}
	case 4:
		return c03Leaf{v: NegativeInfinity, kind: 4}
	}
	switch family {
	case 0:
		k := vInt(tag, -6, 6)
		return c03Leaf{v: c03Num(tag, k), k: k}
	case 1:
		s := vStr(tag, vChoice(tag+"-len", 3), 'a', 'b')
		return c03Leaf{v: StringVal(s), s: s}
	}
	b := vBool(tag)
	return c03Leaf{v: BoolVal(b), k: vIte(b, 1, 0)}
}

// c03SameAnswer: two Equals results say the same thing.
func c03SameAnswer(x, y Value) bool {
	if x.Type() != Bool || y.Type() != Bool || x.IsNull() || y.IsNull() {
		return false
	}
	if x.IsKnown() != y.IsKnown() {
		return false
	}
	if !x.IsKnown() {
		return true
	}
	return x.True() == y.True()
}

func c03IsTrue(x Value) bool { return x.Type() == Bool && x.IsKnown() && !x.IsNull() && x.True() }

// c03Laws asserts the equivalence laws on a triple.
func c03Laws(a, b, c Value, whollyKnown [3]bool) {
	vAssert("raw-reflexive", a.RawEquals(a) && b.RawEquals(b))
	ab, ba := a.RawEquals(b), b.RawEquals(a)
	vAssert("raw-symmetric", ab == ba)
	bc, ac := b.RawEquals(c), a.RawEquals(c)
	vAssert("raw-transitive", !vAnd(ab, bc) || ac)
	eab, eba := a.Equals(b), b.Equals(a)
	vAssert("equals-symmetric", c03SameAnswer(eab, eba))
	if a.IsNull() && b.IsNull() && a.IsKnown() && b.IsKnown() {
		vAssert("nulls-equal", c03IsTrue(eab))
	}
	if whollyKnown[0] && whollyKnown[1] && a.Type().Equals(b.Type()) {
		vAssert("equals-known-on-known", eab.IsKnown())
		if eab.IsKnown() {
			vAssert("equals-agrees-with-raw", eab.True() == ab)
		}
	}
	if c03IsTrue(eab) {
		var ha, hb int
		p := vExpectPanic(func() { ha, hb = a.Hash(), b.Hash() })
		vAssert("hash-total", !p)
		if !p {
			vAssert("equal-values-hash-alike", ha == hb)
		}
	}
	ebc := b.Equals(c)
	if c03IsTrue(eab) && c03IsTrue(ebc) {
		vAssert("equals-transitive", c03IsTrue(a.Equals(c)))
	}
}

func verifC03Scalars() {
	family := vChoice("family", 3)
	a := c03Scalar("a", family)
	b := c03Scalar("b", family)
	c := c03Scalar("c", family)
	c03Laws(a.v, b.v, c.v, [3]bool{a.kind != 2, b.kind != 2, c.kind != 2})
	if family == 0 && a.kind != 1 && a.kind != 2 && b.kind != 1 && b.kind != 2 {
		lt, eq, gt := a.v.LessThan(b.v), a.v.Equals(b.v), a.v.GreaterThan(b.v)
		ok := lt.IsKnown() && eq.IsKnown() && gt.IsKnown()
		vAssert("trichotomy-known", ok)
		if ok {
			n := vIte(lt.True(), 1, 0) + vIte(eq.True(), 1, 0) + vIte(gt.True(), 1, 0)
			vAssert("trichotomy", n == 1)
			// and against the numerators themselves
			if a.kind == 5 && b.kind == 5 {
				vAssert("trichotomy-big", lt.True() == (a.k < b.k) && eq.True() == (a.k == b.k))
			}
			if a.kind == 0 && b.kind == 0 {
				vAssert("trichotomy-value", lt.True() == (a.k < b.k) && eq.True() == (a.k == b.k) && gt.True() == (a.k > b.k))
			}
		}
	}
	// values of different types are never raw-equal and, when both known and non-null, never Equal
	other := StringVal("x")
	if family == 1 {
		other = NumberIntVal(1)
	}
	vAssert("raw-different-types", !a.v.RawEquals(other) && !other.RawEquals(a.v))
	if a.kind == 0 {
		e := a.v.Equals(other)
		vAssert("equals-different-types-false", e.IsKnown() && e.False())
	}
	vReach("end")
}

// c03Structure builds a depth-1 structure of the chosen shape from two leaves drawn per value.
func c03Structure(tag string, shape int) (Value, bool) {
	var l [2]c03Leaf
	nk := 3
	if vTier() == 0 {
		nk = 2
	}
	for i := range l {
		kind := vChoice(tag+"-kind", nk)
		switch kind {
		case 1:
			l[i] = c03Leaf{v: NullVal(Number), kind: 1}
		case 2:
			l[i] = c03Leaf{v: UnknownVal(Number), kind: 2}
		default:
			k := vInt(tag, 0, 2) * 4
			l[i] = c03Leaf{v: c03NumP((i+len(tag))%3, k), k: k}
		}
	}
	known := l[0].kind != 2 && l[1].kind != 2
	switch shape {
	case 0:
		return ListVal([]Value{l[0].v, l[1].v}), known
	case 1:
		return TupleVal([]Value{l[0].v, l[1].v}), known
	case 2:
		return ObjectVal(map[string]Value{"a": l[0].v, "b": l[1].v}), known
	case 3:
		k0 := vStr(tag+"-key", 1, 'a', 'c')
		k1 := vStr(tag+"-key", 1, 'a', 'c')
		return MapVal(map[string]Value{k0: l[0].v, k1: l[1].v}), known
	}
	return SetVal([]Value{l[0].v, l[1].v}), known
}

func verifC03Struct() {
	shape := vChoice("shape", 5)
	a, ka := c03Structure("a", shape)
	b, kb := c03Structure("b", shape)
	var c Value
	kc := true
	// the third value is one of the first two rebuilt, or a fresh one (thorough)
	if vTier() > 0 && vChoice("third", 2) == 1 {
		c, kc = b, kb
	} else {
		c, kc = a, ka
	}
	c03Laws(a, b, c, [3]bool{ka, kb, kc})
	vReach("end")
}

// Sets of numbers: SetVal holds exactly the distinct values whatever the insertion order and iterates in an order
// that depends only on the members.
func verifC03CtySet() {
	var ks [3]int64
	var vs [3]Value
	pats := [][3]int{{0, 0, 0}, {0, 1, 2}, {2, 0, 1}}
	pat := pats[1]
	if vTier() > 0 {
		pat = pats[vChoice("precisions", 3)]
	} else {
		pat = pats[1+vChoice("precisions", 2)]
	}
	for i := range ks {
		ks[i] = vInt("k", 0, 2) * 2 // halves: 0, 0.5, 1
		vs[i] = c03NumP(pat[i], ks[i])
	}
	distinct := 1
	if ks[1] != ks[0] {
		distinct++
	}
	if ks[2] != ks[0] && ks[2] != ks[1] {
		distinct++
	}
	base := SetVal([]Value{vs[0], vs[1], vs[2]})
	vAssert("length-is-distinct-count", base.LengthInt() == distinct)
	perms := [][3]int{{0, 2, 1}, {1, 0, 2}, {1, 2, 0}, {2, 0, 1}, {2, 1, 0}}
	np := len(perms)
	if vTier() == 0 {
		np = 2
		perms = [][3]int{{1, 2, 0}, {2, 1, 0}}
	}
	p := perms[vChoice("perm", np)]
	other := SetVal([]Value{vs[p[0]], vs[p[1]], vs[p[2]]})
	vAssert("perm-same-length", other.LengthInt() == distinct)
	vAssert("perm-raw-equal", base.RawEquals(other) && other.RawEquals(base))
	e := base.Equals(other)
	vAssert("perm-equals", e.IsKnown() && e.True())
	vAssert("perm-same-hash", base.Hash() == other.Hash())
	s1, s2 := base.AsValueSlice(), other.AsValueSlice()
	ok := len(s1) == distinct && len(s2) == distinct
	vAssert("iteration-length", ok)
	if ok {
		for i := range s1 {
			vAssert("iteration-order-by-members", s1[i].AsBigFloat().Cmp(s2[i].AsBigFloat()) == 0)
			if i > 0 {
				vAssert("iteration-ascending", s1[i-1].AsBigFloat().Cmp(s1[i].AsBigFloat()) < 0)
			}
		}
	}
	for i := range vs {
		h := base.HasElement(vs[i])
		vAssert("members-present", h.IsKnown() && h.True())
	}
	q := vInt("q", 0, 3) * 2
	member := q == ks[0] || q == ks[1] || q == ks[2]
	h := base.HasElement(c03NumP(1, q))
	vAssert("membership", h.IsKnown() && h.True() == member)
	vReach("end")
}

// ValueSet algebra over numbers of mixed precision against a model (one bool per value).
func verifC03ValueSet() {
	const n = 3
	build := func(tag string) (ValueSet, [n]bool) {
		s := NewValueSet(Number)
		var m [n]bool
		cnt := vChoice(tag+"-n", 3)
		for i := 0; i < cnt; i++ {
			// members are drawn structurally here (the hash/equality glue itself is decided symbolically in
			// verifC03Scalars and verifC03CtySet); precisions rotate with the position
			k := int64(vChoice(tag, n))
			s.Add(c03NumP((i+int(k))%3, k*4))
			for j := int64(0); j < n; j++ {
				m[j] = vOr(m[j], k == j)
			}
		}
		return s, m
	}
	agrees := func(s ValueSet, m [n]bool) bool {
		cnt := int64(0)
		ok := true
		for j := int64(0); j < n; j++ {
			cnt += vIte(m[j], 1, 0)
			ok = vAnd(ok, s.Has(NumberIntVal(j)) == m[j])
		}
		return vAnd(ok, int64(s.Length()) == cnt)
	}
	a, ma := build("a")
	b, mb := build("b")
	vAssert("built-agrees", vAnd(agrees(a, ma), agrees(b, mb)))
	var r ValueSet
	var mr [n]bool
	switch vChoice("op", 6) {
	case 0:
		r = a.Union(b)
		for j := range mr {
			mr[j] = vOr(ma[j], mb[j])
		}
	case 1:
		r = a.Intersection(b)
		for j := range mr {
			mr[j] = vAnd(ma[j], mb[j])
		}
	case 2:
		r = a.Subtract(b)
		for j := range mr {
			mr[j] = vAnd(ma[j], !mb[j])
		}
	case 3:
		r = a.SymmetricDifference(b)
		for j := range mr {
			mr[j] = ma[j] != mb[j]
		}
	case 4:
		k := int64(vChoice("rm", n))
		r = a.Copy()
		r.Remove(c03NumP(2, k*4))
		for j := int64(0); j < n; j++ {
			mr[j] = vAnd(ma[j], k != j)
		}
	case 5:
		k := int64(vChoice("add", n))
		r = a.Copy()
		r.Add(c03NumP(1, k*4))
		for j := int64(0); j < n; j++ {
			mr[j] = vOr(ma[j], k == j)
		}
	}
	vAssert("result-agrees", agrees(r, mr))
	vAssert("operands-unchanged", vAnd(agrees(a, ma), agrees(b, mb)))
	// a set value built from the result lists its members in ascending order, each once
	vals := r.Values()
	for i := 1; i < len(vals); i++ {
		vAssert("values-ascending", vals[i-1].AsBigFloat().Cmp(vals[i].AsBigFloat()) < 0)
	}
	vReach("end")
}
