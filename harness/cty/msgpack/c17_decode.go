//go:build verif

package msgpack

// C17 — the MessagePack decoder is safe on arbitrary input: for every byte string up to the bound it returns a
// well-formed value of the requested type or an error, never panics, and never asks for memory out of proportion to
// the input (allocation monitor on every make whose size comes from the input).

import (
	"github.com/zclconf/go-cty/cty"
)

func init() {
	verifRegister("verifC17Decode", verifC17Decode)
	verifRegister("verifC17ImpliedType", verifC17ImpliedType)
	verifRegister("verifC17Refinements", verifC17Refinements)
}

// verifC17Refinements: longer inputs behind a fixed 3-byte header: an extension value of the type code used for
// refined unknowns (c7 <len> 0c) followed by len arbitrary bytes, decoded as every kind of type that can carry
// refinements.
func verifC17Refinements() {
	maxBody := 5 + vTier()
	var b []byte
	switch vChoice("header", 3) {
	case 0:
		n := 2 + vChoice("bodylen", maxBody-1)
		body := vBytes("in", n)
		b = append([]byte{0xc7, byte(n), 0x0c}, body...)
	case 1:
		// ext 16: two unconstrained length bytes, an unconstrained type code, 0..1 body bytes
		rest := vBytes("in", 3+vChoice("bodylen16", 2))
		b = append([]byte{0xc8}, rest...)
	default:
		// ext 32: four unconstrained length bytes, an unconstrained type code, 0..1 body bytes
		rest := vBytes("in", 5+vChoice("bodylen32", 2))
		b = append([]byte{0xc9}, rest...)
	}
	ty := []cty.Type{cty.String, cty.Number, cty.Bool, cty.List(cty.String), cty.Map(cty.Bool), cty.Set(cty.Number), cty.EmptyObject, cty.DynamicPseudoType}[vChoice("ty", 8)]
	var v cty.Value
	var err error
	p := vExpectPanic(func() { v, err = Unmarshal(b, ty) })
	vLog("in=%x ty=%#v v=%#v err=%v", b, ty, v, err)
	vAssert("unmarshal-no-panic", !p)
	if p {
		return
	}
	if err == nil {
		vAssert("decoded-value-has-requested-type", c17Conforms(v.Type(), ty))
		vAssert("decoded-value-well-formed", cty.VerifWellFormed(v) == "")
		vAssert("decoded-refined-unknown-is-unknown-or-collapsed", !v.IsKnown() || v.IsNull() || v.Type().IsCollectionType() || v.Type() == cty.Number)
		vReach("end-value")
	} else {
		vReach("end-error")
	}
}

var c17Targets = []cty.Type{
	cty.String, cty.Number, cty.Bool,
	cty.List(cty.String), cty.Set(cty.Number), cty.Map(cty.Bool),
	cty.Tuple([]cty.Type{cty.Number, cty.String}), cty.Object(map[string]cty.Type{"a": cty.Number}),
	cty.List(cty.List(cty.Bool)), cty.EmptyTuple, cty.EmptyObject,
}

func c17Conforms(got, want cty.Type) bool {
	if want == cty.DynamicPseudoType {
		return true
	}
	return got.Equals(want)
}

func verifC17Decode() {
	maxLen := 4 + 2*vTier()
	n := vChoice("len", maxLen+1)
	b := vBytes("in", n)
	ty := c17Targets[vChoice("ty", len(c17Targets))]
	var v cty.Value
	var err error
	p := vExpectPanic(func() { v, err = Unmarshal(b, ty) })
	vLog("in=%x ty=%#v v=%#v err=%v", b, ty, v, err)
	vAssert("unmarshal-no-panic", !p)
	if p {
		return
	}
	if err == nil {
		vAssert("decoded-value-has-requested-type", c17Conforms(v.Type(), ty))
		why := cty.VerifWellFormed(v)
		if why != "" {
			vLog("ill-formed: %s", why)
		}
		vAssert("decoded-value-well-formed", why == "")
		vReach("end-value")
	} else {
		vReach("end-error")
	}
}

func verifC17ImpliedType() {
	maxLen := 3 + 2*vTier()
	n := vChoice("len", maxLen+1)
	b := vBytes("in", n)
	var err error
	p := vExpectPanic(func() { _, err = ImpliedType(b) })
	vAssert("impliedtype-no-panic", !p)
	_ = err
	vReach("end")
}

func init() {
	verifRegister("verifC17Skeletons", verifC17Skeletons)
}

// verifC17Skeletons: inputs longer than the plain decoder harness reaches, as fixed structural skeletons with
// unconstrained bytes in the places that carry keys, key type codes and members: two-entry maps and objects (duplicate
// keys, keys that are not strings, keys the type does not have), two-member sets (duplicates), tuples and nested lists.
func verifC17Skeletons() {
	var b []byte
	var ty cty.Type
	in := func(n int) []byte { return vBytes("in", n) }
	switch vChoice("skeleton", 7) {
	case 0: // 82 a1 K V a1 K V  as an object with two attributes
		h := in(4)
		b = []byte{0x82, 0xa1, h[0], h[1], 0xa1, h[2], h[3]}
		ty = cty.Object(map[string]cty.Type{"a": cty.Number, "b": cty.Number})
	case 1: // the same bytes as a map
		h := in(4)
		b = []byte{0x82, 0xa1, h[0], h[1], 0xa1, h[2], h[3]}
		ty = cty.Map(cty.Number)
	case 2: // key type codes unconstrained too (keys that are not strings)
		h := in(6)
		b = []byte{0x82, h[0], h[1], h[2], h[3], h[4], h[5]}
		ty = []cty.Type{cty.Map(cty.Number), cty.Object(map[string]cty.Type{"a": cty.Number, "b": cty.Number})}[vChoice("keyed", 2)]
	case 3: // 92 V V as a set (duplicates) or a list
		h := in(2)
		b = []byte{0x92, h[0], h[1]}
		ty = []cty.Type{cty.Set(cty.Number), cty.Set(cty.Bool), cty.List(cty.Number)}[vChoice("seq", 3)]
	case 4: // 92 V V as a tuple
		h := in(2)
		b = []byte{0x92, h[0], h[1]}
		ty = cty.Tuple([]cty.Type{cty.Number, cty.Bool})
	case 5: // 92 91 V 91 V as a list of lists / set of lists
		h := in(2)
		b = []byte{0x92, 0x91, h[0], 0x91, h[1]}
		ty = []cty.Type{cty.List(cty.List(cty.Bool)), cty.Set(cty.List(cty.Number))}[vChoice("nested", 2)]
	default: // 81 a1 K 92 V V : an object holding a tuple
		h := in(3)
		b = []byte{0x81, 0xa1, h[0], 0x92, h[1], h[2]}
		ty = cty.Object(map[string]cty.Type{"a": cty.Tuple([]cty.Type{cty.Number, cty.Number})})
	}
	var v cty.Value
	var err error
	p := vExpectPanic(func() { v, err = Unmarshal(b, ty) })
	vLog("in=%x ty=%#v v=%#v err=%v", b, ty, v, err)
	vAssert("unmarshal-no-panic", !p)
	if p {
		return
	}
	if err == nil {
		vAssert("decoded-value-has-requested-type", c17Conforms(v.Type(), ty))
		why := cty.VerifWellFormed(v)
		if why != "" {
			vLog("ill-formed: %s", why)
		}
		vAssert("decoded-value-well-formed", why == "")
		vReach("end-value")
	} else {
		vReach("end-error")
	}
}
