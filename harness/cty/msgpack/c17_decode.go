//go:build verif

package msgpack

// C17 — the MessagePack decoder is safe on arbitrary input: for every byte string up to the bound it returns a
// well-formed value of the requested type or an error, never panics, and never asks for memory out of proportion to
// the input (allocation monitor on every make whose size comes from the input).

import (
	"github.com/zclconf/go-cty/cty"
)

func init() {
	verifRegister("verifC17Decode", verifC17Decode)
	verifRegister("verifC17ImpliedType", verifC17ImpliedType)
	verifRegister("verifC17Refinements", verifC17Refinements)
}

// verifC17Refinements: longer inputs behind a fixed 3-byte header: an extension value of the type code used for
// refined unknowns (c7 <len> 0c) followed by len arbitrary bytes, decoded as every kind of type that can carry
// refinements.
func verifC17Refinements() {
	maxBody := 5 + vTier()
	n := 2 + vChoice("bodylen", maxBody-1)
	body := vBytes("in", n)
	b := append([]byte{0xc7, byte(n), 0x0c}, body...)
	ty := []cty.Type{cty.String, cty.Number, cty.Bool, cty.List(cty.String), cty.Map(cty.Bool), cty.Set(cty.Number), cty.EmptyObject, cty.DynamicPseudoType}[vChoice("ty", 8)]
	var v cty.Value
	var err error
	p := vExpectPanic(func() { v, err = Unmarshal(b, ty) })
	vLog("in=%x ty=%#v v=%#v err=%v", b, ty, v, err)
	vAssert("unmarshal-no-panic", !p)
	if p {
		return
	}
	if err == nil {
		vAssert("decoded-value-has-requested-type", c17Conforms(v.Type(), ty))
		vAssert("decoded-value-well-formed", cty.VerifWellFormed(v) == "")
		vAssert("decoded-refined-unknown-is-unknown-or-collapsed", !v.IsKnown() || v.IsNull() || v.Type().IsCollectionType() || v.Type() == cty.Number)
		vReach("end-value")
	} else {
		vReach("end-error")
	}
}

var c17Targets = []cty.Type{
	cty.String, cty.Number, cty.Bool,
	cty.List(cty.String), cty.Set(cty.Number), cty.Map(cty.Bool),
	cty.Tuple([]cty.Type{cty.Number, cty.String}), cty.Object(map[string]cty.Type{"a": cty.Number}),
	cty.List(cty.List(cty.Bool)), cty.EmptyTuple, cty.EmptyObject,
}

func c17Conforms(got, want cty.Type) bool {
	if want == cty.DynamicPseudoType {
		return true
	}
	return got.Equals(want)
}

func verifC17Decode() {
	maxLen := 4 + 2*vTier()
	n := vChoice("len", maxLen+1)
	b := vBytes("in", n)
	ty := c17Targets[vChoice("ty", len(c17Targets))]
	var v cty.Value
	var err error
	p := vExpectPanic(func() { v, err = Unmarshal(b, ty) })
	vLog("in=%x ty=%#v v=%#v err=%v", b, ty, v, err)
	vAssert("unmarshal-no-panic", !p)
	if p {
		return
	}
	if err == nil {
		vAssert("decoded-value-has-requested-type", c17Conforms(v.Type(), ty))
		why := cty.VerifWellFormed(v)
		if why != "" {
			vLog("ill-formed: %s", why)
		}
		vAssert("decoded-value-well-formed", why == "")
		vReach("end-value")
	} else {
		vReach("end-error")
	}
}

func verifC17ImpliedType() {
	maxLen := 3 + 2*vTier()
	n := vChoice("len", maxLen+1)
	b := vBytes("in", n)
	var err error
	p := vExpectPanic(func() { _, err = ImpliedType(b) })
	vAssert("impliedtype-no-panic", !p)
	_ = err
	vReach("end")
}
