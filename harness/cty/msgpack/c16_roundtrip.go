//go:build verif

package msgpack

// C16 — MessagePack round trip: Unmarshal(Marshal(v, t), t) has the type of v, equals it in every known part, and
// every unknown part admits at least what the original admitted (refinements approximated, never narrowed or
// invented). Marked values are rejected.

import (
	"math"
	"math/big"
	"strings"

	"github.com/zclconf/go-cty/cty"
)

func init() {
	verifRegister("verifC16Scalars", verifC16Scalars)
	verifRegister("verifC16Unknowns", verifC16Unknowns)
	verifRegister("verifC16Structures", verifC16Structures)
}

// c16NoNarrower: every value admitted by the original unknown orig is admitted by the decoded unknown dec.
func c16NoNarrower(dec, orig cty.Value) bool {
	if !dec.Type().Equals(orig.Type()) || dec.IsKnown() != orig.IsKnown() {
		// a refined unknown may collapse to a known value on both sides in the same way
		return dec.RawEquals(orig)
	}
	if dec.IsKnown() {
		return dec.RawEquals(orig)
	}
	if dec.Type() == cty.DynamicPseudoType {
		return true
	}
	dr, or := dec.Range(), orig.Range()
	if dr.DefinitelyNotNull() && !or.DefinitelyNotNull() {
		return false
	}
	ty := dec.Type()
	switch {
	case ty == cty.Number:
		dlo, dloInc := dr.NumberLowerBound()
		olo, oloInc := or.NumberLowerBound()
		if dlo.IsKnown() && dlo != cty.NegativeInfinity {
			// the decoded value has a lower bound: the original must have one at least as tight
			if !olo.IsKnown() || olo == cty.NegativeInfinity {
				return false
			}
			if dlo.GreaterThan(olo).True() || (dlo.Equals(olo).True() && !dloInc && oloInc) {
				return false
			}
		}
		dhi, dhiInc := dr.NumberUpperBound()
		ohi, ohiInc := or.NumberUpperBound()
		if dhi.IsKnown() && dhi != cty.PositiveInfinity {
			if !ohi.IsKnown() || ohi == cty.PositiveInfinity {
				return false
			}
			if dhi.LessThan(ohi).True() || (dhi.Equals(ohi).True() && !dhiInc && ohiInc) {
				return false
			}
		}
	case ty == cty.String:
		if !strings.HasPrefix(or.StringPrefix(), dr.StringPrefix()) {
			return false
		}
	case ty.IsCollectionType():
		if dr.LengthLowerBound() > or.LengthLowerBound() || dr.LengthUpperBound() < or.LengthUpperBound() {
			return false
		}
	}
	return true
}

// c16NumSame: a decoded known number against the original: whole numbers and exact float64 values must come back
// numerically identical; any other number must come back numerically identical or at least equal. (cty's Equals
// compares shortest decimal texts, which differ between two numerically identical numbers of different precision
// when the value needs many digits, e.g. 2^-1022 at 512 bits against the float64 the decoder builds: numerical
// identity is what the statement asks of exact float64 values, so that is what is compared.)
func c16NumSame(dec, orig cty.Value) bool {
	if dec.Type() != cty.Number || !dec.IsKnown() || dec.IsNull() {
		return false
	}
	d, o := dec.AsBigFloat(), orig.AsBigFloat()
	if d.IsInf() || o.IsInf() {
		return d.IsInf() && o.IsInf() && d.Sign() == o.Sign()
	}
	if d.Cmp(o) == 0 {
		return true
	}
	if o.IsInt() {
		return false
	}
	if _, acc := o.Float64(); acc == big.Exact {
		return false
	}
	return dec.Equals(orig).True()
}

// c16Same compares a decoded value with the original, structurally.
func c16Same(dec, orig cty.Value) bool {
	if dec.IsMarked() || orig.IsMarked() {
		return false
	}
	if dec.RawEquals(orig) {
		return true
	}
	if orig.Type() == cty.Number && orig.IsKnown() && !orig.IsNull() {
		return c16NumSame(dec, orig)
	}
	if !dec.Type().Equals(orig.Type()) {
		return false
	}
	if !orig.IsKnown() || !dec.IsKnown() {
		return c16NoNarrower(dec, orig)
	}
	if dec.IsNull() != orig.IsNull() {
		return false
	}
	ty := orig.Type()
	switch {
	case ty.IsListType() || ty.IsTupleType():
		if dec.LengthInt() != orig.LengthInt() {
			return false
		}
		ds, os := dec.AsValueSlice(), orig.AsValueSlice()
		for i := range ds {
			if !c16Same(ds[i], os[i]) {
				return false
			}
		}
		return true
	case ty.IsMapType() || ty.IsObjectType():
		dm, om := dec.AsValueMap(), orig.AsValueMap()
		if len(dm) != len(om) {
			return false
		}
		for k, dv := range dm {
			ov, ok := om[k]
			if !ok || !c16Same(dv, ov) {
				return false
			}
		}
		return true
	}
	return false
}

func c16RoundTrip(v cty.Value, ty cty.Type) {
	var b []byte
	var err error
	vAssert("marshal-no-panic", !vExpectPanic(func() { b, err = Marshal(v, ty) }))
	vAssert("marshal-succeeds", err == nil)
	if err != nil {
		return
	}
	var got cty.Value
	vAssert("unmarshal-no-panic", !vExpectPanic(func() { got, err = Unmarshal(b, ty) }))
	vLog("v=%#v bytes=%x got=%#v err=%v", v, b, got, err)
	vAssert("unmarshal-succeeds", err == nil)
	if err != nil {
		return
	}
	vAssert("roundtrip-keeps-type", got.Type().Equals(v.Type()))
	vAssert("roundtrip-equal-in-known-parts-and-no-narrower-in-unknown-parts", c16Same(got, v))
	vAssert("decoded-value-well-formed", cty.VerifWellFormed(got) == "")
}

// verifC16Scalars: numbers over the whole int64 and uint64 ranges (every integer-width boundary of the encoding is
// inside the query), infinities, fractions from a menu, bools, strings of symbolic bytes, nulls; marked values.
func verifC16Scalars() {
	var v cty.Value
	switch vChoice("kind", 9) {
	case 0:
		// every encoding width up to 32 bits and the first values that need 64 bits
		v = cty.NumberIntVal(vInt("k", -(1<<31)-4, (1<<32)+4))
	case 1:
		// 64-bit boundaries (concrete: recombining eight symbolic bytes is beyond the solvers in reach)
		v = []cty.Value{cty.NumberIntVal(math.MaxInt64), cty.NumberIntVal(math.MinInt64), cty.NumberUIntVal(math.MaxUint64), cty.NumberUIntVal(1 << 63),
			cty.NumberIntVal(1 << 53), cty.NumberIntVal(-(1 << 53) - 1), cty.NumberIntVal(1<<62 + 12345)}[vChoice("n64", 7)]
	case 2:
		v = []cty.Value{cty.PositiveInfinity, cty.NegativeInfinity, cty.NumberFloatVal(0.5), cty.NumberFloatVal(-2.25), cty.NumberFloatVal(1e300),
			cty.MustParseNumberVal("0.1"), cty.MustParseNumberVal("18446744073709551616"), cty.MustParseNumberVal("-9223372036854775809"),
			cty.MustParseNumberVal("123456789012345678901234567890.5"),
			// magnitudes at and below the float64 exponent range, with few significant bits (512-bit precision)
			c16Tiny(1.5, -1200), c16Tiny(1.25, -1073), c16Tiny(-1, -1075), c16Tiny(1.5, -1074), c16Tiny(1, -1022), c16Tiny(1.5, 1100),
			cty.MustParseNumberVal("1e-400"), cty.MustParseNumberVal("-1e400")}[vChoice("n", 17)]
	case 3:
		v = cty.BoolVal(vBool("b"))
	case 4:
		v = cty.StringVal(vStr("s", vChoice("slen", 4), ' ', '~'))
	case 5:
		v = cty.NullVal(cty.Number)
	case 6:
		v = cty.NullVal(cty.String)
	case 7:
		v = cty.StringVal("café \U0001F44D")
	default:
		v = cty.NullVal(cty.List(cty.Bool))
	}
	if vChoice("marked", 2) == 1 {
		var err error
		vAssert("marshal-marked-no-panic", !vExpectPanic(func() { _, err = Marshal(v.Mark("m"), v.Type()) }))
		vAssert("marked-value-is-rejected", err != nil)
		vReach("end-marked")
		return
	}
	c16RoundTrip(v, v.Type())
	if v.Type() == cty.Number && v.IsKnown() && !v.IsNull() {
		// numbers come back numerically identical
		b, err := Marshal(v, cty.Number)
		if err == nil {
			got, err := Unmarshal(b, cty.Number)
			vAssert("number-comes-back-equal", err == nil && c16NumSame(got, v))
		}
	}
	vReach("end")
}

// c16Tiny: mant * 2^exp at 512-bit precision.
func c16Tiny(mant float64, exp int) cty.Value {
	f := new(big.Float).SetPrec(512).SetFloat64(mant)
	two := new(big.Float).SetPrec(512).SetInt64(2)
	for i := 0; i < exp; i++ {
		f.Mul(f, two)
	}
	for i := 0; i > exp; i-- {
		f.Quo(f, two)
	}
	return cty.NumberVal(f)
}

// c16HardNumbers: bounds that have no exact int64 or float64 form (and two that have), ascending.
var c16HardNumbers = []string{"-1e400", "-18446744073709551617", "-0.1", "0", "0.30000000000000000001", "9007199254740993", "18446744073709551615",
	"18446744073709551617", "123456789012345678901234567890.5", "1e400"}

// c16Unknown: an unknown value of the given kind with symbolic refinements.
func c16Unknown(tag string, kind int) cty.Value {
	switch kind {
	case 8: // number whose bounds come from the menu of numbers without an exact machine form
		i := vChoice(tag+"-hlo", len(c16HardNumbers))
		j := vChoice(tag+"-hhi", len(c16HardNumbers))
		b := cty.UnknownVal(cty.Number).Refine()
		loInc, hiInc := vBool(tag+"-loinc"), vBool(tag+"-hiinc")
		if i > j || (i == j && !(loInc && hiInc)) {
			vAssume(false)
		}
		b = b.NumberRangeLowerBound(cty.MustParseNumberVal(c16HardNumbers[i]), loInc)
		if vChoice(tag+"-onlylo", 2) == 0 {
			b = b.NumberRangeUpperBound(cty.MustParseNumberVal(c16HardNumbers[j]), hiInc)
		}
		if vBool(tag + "-notnull") {
			b = b.NotNull()
		}
		return b.NewValue()
	case 0: // number with optional bounds
		b := cty.UnknownVal(cty.Number).Refine()
		lo, hi := vInt(tag+"-lo", -1000, 1000), vInt(tag+"-hi", -1000, 1000)
		hasLo, hasHi := vBool(tag+"-haslo"), vBool(tag+"-hashi")
		loInc, hiInc := vBool(tag+"-loinc"), vBool(tag+"-hiinc")
		vAssume(vOr(!vAnd(hasLo, hasHi), vOr(lo < hi, vAnd(lo == hi, vAnd(loInc, hiInc)))))
		if hasLo {
			b = b.NumberRangeLowerBound(cty.NumberIntVal(lo), loInc)
		}
		if hasHi {
			b = b.NumberRangeUpperBound(cty.NumberIntVal(hi), hiInc)
		}
		if vBool(tag + "-notnull") {
			b = b.NotNull()
		}
		return b.NewValue()
	case 1: // string with a prefix
		b := cty.UnknownVal(cty.String).Refine()
		n := vChoice(tag+"-plen", 4)
		if n > 0 {
			b = b.StringPrefixFull(vStr(tag+"-prefix", n, 'a', 'z'))
		}
		if vBool(tag + "-notnull") {
			b = b.NotNull()
		}
		return b.NewValue()
	case 2, 3, 4: // collections with length bounds over the whole int range
		ty := []cty.Type{cty.List(cty.String), cty.Set(cty.Number), cty.Map(cty.Bool)}[kind-2]
		b := cty.UnknownVal(ty).Refine()
		// bounds through every integer width of the encoding up to 32 bits (recombining eight symbolic bytes is
		// beyond the solvers in reach; the 64-bit extreme is covered by the absent upper bound, which is MaxInt)
		lo, hi := vInt(tag+"-lo", 0, 70000), vInt(tag+"-hi", 0, 70000)
		vAssume(vAnd(lo <= hi, vOr(lo < hi, lo <= 2))) // (an exact length n makes a known list of n unknown members)
		if vBool(tag + "-haslo") {
			b = b.CollectionLengthLowerBound(int(lo))
		}
		if vBool(tag + "-hashi") {
			b = b.CollectionLengthUpperBound(int(hi))
		}
		if vBool(tag + "-notnull") {
			b = b.NotNull()
		}
		return b.NewValue()
	case 5:
		if vBool(tag + "-notnull") {
			return cty.UnknownVal(cty.Bool).RefineNotNull()
		}
		return cty.UnknownVal(cty.Bool)
	case 6:
		if vBool(tag + "-notnull") {
			return cty.UnknownVal(cty.Object(map[string]cty.Type{"a": cty.String})).RefineNotNull()
		}
		return cty.UnknownVal(cty.Object(map[string]cty.Type{"a": cty.String}))
	}
	return cty.UnknownVal(cty.Tuple([]cty.Type{cty.Number}))
}

// verifC16Unknowns: a single unknown value with symbolic refinements of every kind.
func verifC16Unknowns() {
	v := c16Unknown("u", vChoice("kind", 9))
	c16RoundTrip(v, v.Type())
	vReach("end")
}

// verifC16Structures: structures to depth 2 with symbolic leaves and null / unknown members.
func c16Leaf(tag string) cty.Value {
	switch vChoice(tag+"-leaf", 6+vTier()*3) {
	case 0:
		return cty.NumberIntVal(vInt(tag, -200, 70000))
	case 1:
		return cty.StringVal(vStr(tag, 1, 'a', 'c'))
	case 2:
		return cty.BoolVal(vBool(tag))
	case 3:
		return cty.NullVal(cty.String)
	case 4:
		return cty.UnknownVal(cty.Number).Refine().NumberRangeLowerBound(cty.NumberIntVal(vInt(tag+"-lo", -200, 200)), vBool(tag+"-inc")).NewValue()
	case 5:
		return cty.UnknownVal(cty.List(cty.String)).Refine().CollectionLengthLowerBound(int(vInt(tag+"-lo", 0, 300))).NewValue()
	case 6:
		return c16Unknown(tag, 1)
	case 7:
		return c16Unknown(tag, 6)
	}
	return cty.UnknownVal(cty.String)
}

func verifC16Structures() {
	var v cty.Value
	a := c16Leaf("a")
	switch vChoice("shape", 8) {
	case 0:
		v = cty.ListVal([]cty.Value{a, a})
	case 1:
		v = cty.TupleVal([]cty.Value{a, c16Leaf("b")})
	case 2:
		v = cty.MapVal(map[string]cty.Value{"x": a, "y": a})
	case 3:
		v = cty.ObjectVal(map[string]cty.Value{"x": a, "y": c16Leaf("b")})
	case 4:
		vAssume(a.IsWhollyKnown())
		v = cty.SetVal([]cty.Value{a})
	case 5:
		v = cty.ListVal([]cty.Value{cty.TupleVal([]cty.Value{a})})
	case 6:
		v = cty.ObjectVal(map[string]cty.Value{"o": cty.MapVal(map[string]cty.Value{"k": a})})
	default:
		v = cty.TupleVal([]cty.Value{cty.ListValEmpty(cty.String), cty.EmptyObjectVal, cty.EmptyTupleVal, cty.SetValEmpty(cty.Number), cty.MapValEmpty(cty.Bool), a})
	}
	c16RoundTrip(v, v.Type())
	vReach("end")
}
