//go:build verif

package set

// C03 (set algebra over hash buckets) and C20 (no aliasing between sets): the generic set package driven from an
// arbitrary valid representation state with a SYMBOLIC hash assignment, so that bucket collisions are chosen by the
// solver, followed by a short history of operations; a model (one bool per equivalence class) is kept alongside.

func init() {
	verifRegister("verifC03SetOps", verifC03SetOps)
	verifRegister("verifC03SetAlias", verifC03SetAlias)
}

const c03MaxClass = 4

// vRules: values 0..m are members of class v % m (so m is equivalent to 0: a non-trivial equivalence); the hash of a
// class is a symbolic value in {0,1}, hence equivalent values hash alike (the Rules contract) and collisions between
// inequivalent values are the solver's choice.
type vRules struct {
	hh *[c03MaxClass]int
	m  int
}

func (r vRules) Hash(v int) int             { return r.hh[v%r.m] }
func (r vRules) Equivalent(a, b int) bool   { return a%r.m == b%r.m }
func (r vRules) SameRules(o Rules[int]) bool { _, ok := o.(vRules); return ok }

type c03Model [c03MaxClass]bool

func c03Count(m c03Model) int {
	n := 0
	for _, b := range m {
		if b {
			n++
		}
	}
	return n
}

// c03Agrees: the set's observable content is exactly the model's.
func c03Agrees(s Set[int], m c03Model, r vRules) bool {
	ok := s.Length() == c03Count(m)
	vals := s.Values()
	ok = ok && len(vals) == c03Count(m)
	var seen c03Model
	for _, v := range vals {
		c := v % r.m
		if v < 0 || v > r.m || seen[c] || !m[c] {
			ok = false
		}
		seen[c] = true
	}
	for c := 0; c < r.m; c++ {
		if s.Has(c) != m[c] {
			ok = false
		}
		if c == 0 && s.Has(r.m) != m[0] { // the other representative of class 0
			ok = false
		}
	}
	return ok
}

// c03Fingerprint: the full representation (bucket ids in ascending order, bucket contents in order).
func c03Fingerprint(s Set[int]) [3][c03MaxClass + 1]int {
	var fp [3][c03MaxClass + 1]int
	for h := 0; h < 2; h++ {
		b, ok := s.vals[h]
		if !ok {
			fp[h][0] = -1
			continue
		}
		fp[h][0] = len(b)
		for k, v := range b {
			if k < c03MaxClass {
				fp[h][k+1] = v + 1
			}
		}
	}
	fp[2][0] = len(s.vals)
	return fp
}

// c03State builds an arbitrary valid representation: any subset of the classes present (either representative of
// class 0), distributed over buckets by the symbolic hash, in ascending or descending order within a bucket, with or
// without spare capacity in the bucket slices (spare capacity is what makes sharing a backing array observable).
func c03State(tag string, r vRules) (Set[int], c03Model) {
	s := NewSet[int](r)
	var m c03Model
	desc := vTier() > 0 && vChoice(tag+"-desc", 2) == 1
	slack := vChoice(tag+"-slack", 2) == 1
	for k := 0; k < r.m; k++ {
		c := k
		if desc {
			c = r.m - 1 - k
		}
		if vChoice(tag+"-has", 2) == 0 {
			continue
		}
		v := c
		if c == 0 && vTier() > 0 && vChoice(tag+"-rep", 2) == 1 {
			v = r.m
		}
		h := r.hh[c]
		b, ok := s.vals[h]
		if !ok {
			if slack {
				b = make([]int, 0, 4)
			} else {
				b = make([]int, 0, 1)
			}
		}
		if slack {
			b = append(b, v)
		} else {
			nb := make([]int, len(b)+1)
			copy(nb, b)
			nb[len(b)] = v
			b = nb
		}
		s.vals[h] = b
		m[c] = true
	}
	return s, m
}

// c03Hashes: the symbolic hash assignment. In the quick tier class 0 is pinned to bucket 0 (bucket ids only
// influence the order in which buckets are visited).
func c03Hashes(nclass int) *[c03MaxClass]int {
	var hh [c03MaxClass]int
	for c := 0; c < nclass; c++ {
		if c == 0 && vTier() == 0 {
			hh[c] = int(vInt("hash", 0, 0))
			continue
		}
		hh[c] = int(vInt("hash", 0, 1))
	}
	return &hh
}

// c03Plain builds a set through the public API from any subset of the classes.
func c03Plain(tag string, r vRules) (Set[int], c03Model) {
	s := NewSet[int](r)
	var m c03Model
	for c := 0; c < r.m; c++ {
		if vChoice(tag+"-has", 2) == 1 {
			s.Add(c)
			m[c] = true
		}
	}
	return s, m
}

func c03Algebra(op int, a, b Set[int], ma, mb c03Model, nclass int) (Set[int], c03Model) {
	var rm c03Model
	for c := 0; c < nclass; c++ {
		x, y := ma[c], mb[c]
		switch op {
		case 0:
			rm[c] = x || y
		case 1:
			rm[c] = x && y
		case 2:
			rm[c] = x && !y
		case 3:
			rm[c] = x != y
		}
	}
	switch op {
	case 0:
		return a.Union(b), rm
	case 1:
		return a.Intersection(b), rm
	case 2:
		return a.Subtract(b), rm
	}
	return a.SymmetricDifference(b), rm
}

// One operation from an arbitrary valid state of one or two sets (the inductive step: every reachable state is a
// valid state, so histories of any length are covered as far as the representation invariant is concerned).
func verifC03SetOps() {
	nclass := 3
	if vTier() > 0 {
		nclass = 4
	}
	r := vRules{c03Hashes(nclass), nclass}
	var sets [3]Set[int]
	var models [3]c03Model
	sets[0], models[0] = c03State("a", r)
	live := 1
	if vChoice("second", 2) == 1 {
		sets[1], models[1] = c03Plain("b", r)
		live = 2
	}
	for k := 0; k < live; k++ {
		vAssert("state-agrees", c03Agrees(sets[k], models[k], r))
	}
	i := vChoice("set", live)
	var before [3][3][c03MaxClass + 1]int
	for k := 0; k < live; k++ {
		before[k] = c03Fingerprint(sets[k])
	}
	touched := i
	op := vChoice("op", 7)
	switch op {
	case 0:
		v := vChoice("v", nclass+1)
		sets[i].Add(v)
		models[i][v%nclass] = true
	case 1:
		v := vChoice("v", nclass+1)
		sets[i].Remove(v)
		models[i][v%nclass] = false
	case 2:
		sets[live], models[live] = sets[i].Copy(), models[i]
		touched = live
		live++
	default:
		j := vChoice("other", live)
		sets[live], models[live] = c03Algebra(op-3, sets[i], sets[j], models[i], models[j], nclass)
		touched = live
		live++
	}
	for k := 0; k < live; k++ {
		vAssert("model-agrees", c03Agrees(sets[k], models[k], r))
		if k != touched {
			vAssert("others-untouched", c03Fingerprint(sets[k]) == before[k])
		}
	}
	vReach("end")
}

// Aliasing: a set derived from another (copy or algebra result) shares no storage with it: mutating either one in
// any order never changes the other. The solver chooses the collisions that give buckets spare capacity.
func verifC03SetAlias() {
	nclass := 3
	muts := 2
	if vTier() > 0 {
		muts = 3
	}
	r := vRules{c03Hashes(nclass), nclass}
	var sets [2]Set[int]
	var models [2]c03Model
	sets[0], models[0] = c03State("a", r)
	empty := NewSet[int](r)
	var none c03Model
	switch vChoice("derive", 6) {
	case 0:
		sets[1], models[1] = sets[0].Copy(), models[0]
	case 1:
		sets[1], models[1] = c03Algebra(0, sets[0], empty, models[0], none, nclass)
	case 2:
		sets[1], models[1] = c03Algebra(0, empty, sets[0], none, models[0], nclass)
	case 3:
		sets[1], models[1] = c03Algebra(1, sets[0], sets[0], models[0], models[0], nclass)
	case 4:
		sets[1], models[1] = c03Algebra(2, sets[0], empty, models[0], none, nclass)
	case 5:
		sets[1], models[1] = c03Algebra(3, empty, sets[0], none, models[0], nclass)
	}
	vAssert("derived-agrees", c03Agrees(sets[1], models[1], r))
	first := 0
	for step := 0; step < muts; step++ {
		// the first mutation picks a set, the following ones alternate
		i := first
		if step == 0 {
			i = vChoice("set", 2)
		} else if step%2 == 1 {
			i = 1 - first
		}
		if step == 0 {
			first = i
		}
		other := c03Fingerprint(sets[1-i])
		v := vChoice("v", nclass+1)
		if vChoice("remove", 2) == 1 {
			sets[i].Remove(v)
			models[i][v%nclass] = false
		} else {
			sets[i].Add(v)
			models[i][v%nclass] = true
		}
		vAssert("mutated-agrees", c03Agrees(sets[i], models[i], r))
		vAssert("other-agrees", c03Agrees(sets[1-i], models[1-i], r))
		vAssert("other-untouched", c03Fingerprint(sets[1-i]) == other)
	}
	vReach("end")
}
