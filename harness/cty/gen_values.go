//go:build verif

package cty

// Shared value generator for the cty-package harnesses (C19, C06): builds a value through the public constructors
// together with a model tree that records, for every member, the step that addresses it and the value it was built
// from. Shapes are structural choices; leaves and keys are symbolic.

type gvNode struct {
	val    Value    // the member as constructed (with its own marks)
	step   PathStep // step from the parent (nil at the root)
	kids   []*gvNode
	parent *gvNode
	inSet  bool // addressed through a set (paths cannot be applied)
	leaf   bool
}

type gvGen struct {
	width    int
	special  int // remaining null / unknown members
	marks    int // remaining marked members
	sets     bool
	symKeys  bool // map keys / attribute names symbolic one-byte strings over {a,b,c}
	markN    int
	dynLeaf  bool // allow DynamicVal / null of the placeholder type as members of tuples and objects
}

func (g *gvGen) leafType(tag string) Type {
	return []Type{String, Number, Bool}[vChoice(tag+"-lt", 3)]
}

func (g *gvGen) leaf(tag string, ty Type) Value {
	switch ty {
	case Number:
		return NumberIntVal(vInt(tag, 0, 2))
	case Bool:
		return BoolVal(vBool(tag))
	}
	return StringVal(vStr(tag, 1, 'a', 'c'))
}

// typ generates a type of depth <= d (no placeholders).
func (g *gvGen) typ(tag string, d int) Type {
	n := 3
	if d > 0 {
		n = 7
		if g.sets {
			n = 8
		}
	}
	k := vChoice(tag+"-kind", n)
	switch k {
	case 0:
		return String
	case 1:
		return Number
	case 2:
		return Bool
	case 3:
		return List(g.typ(tag+"e", d-1))
	case 4:
		return Map(g.typ(tag+"e", d-1))
	case 5:
		ln := vChoice(tag+"-tlen", g.width+1)
		ts := make([]Type, ln)
		for i := range ts {
			ts[i] = g.typ(tag+string(rune('0'+i)), d-1)
		}
		return Tuple(ts)
	case 6:
		ln := vChoice(tag+"-olen", g.width+1)
		ats := map[string]Type{}
		for i := 0; i < ln; i++ {
			ats[string(rune('a'+i))] = g.typ(tag+string(rune('a'+i)), d-1)
		}
		return Object(ats)
	}
	return Set(g.typ(tag+"e", d-1))
}

// value builds a value of type ty and its model node.
func (g *gvGen) value(tag string, ty Type) *gvNode {
	mode := 0
	if g.special > 0 {
		mode = vChoice(tag+"-mode", 3)
		if mode != 0 {
			g.special--
		}
	}
	var n *gvNode
	switch mode {
	case 1:
		n = &gvNode{val: NullVal(ty), leaf: true}
	case 2:
		u := UnknownVal(ty)
		if vBool(tag + "-notnull") {
			u = u.RefineNotNull()
		}
		n = &gvNode{val: u, leaf: true}
	default:
		n = g.known(tag, ty)
	}
	if g.marks > 0 && vChoice(tag+"-mark", 2) == 1 {
		g.marks--
		g.markN++
		n.val = n.val.Mark("m" + string(rune('0'+g.markN)))
	}
	return n
}

func (g *gvGen) keyName(tag string, i int, used []string) string {
	if !g.symKeys {
		return string(rune('a' + i))
	}
	name := vStr(tag+"-key", 1, 'a', 'c')
	for _, u := range used {
		vAssume(u != name)
	}
	return name
}

func (g *gvGen) known(tag string, ty Type) *gvNode {
	n := &gvNode{}
	add := func(k *gvNode, step PathStep, inSet bool) {
		k.step, k.parent, k.inSet = step, n, inSet
		n.kids = append(n.kids, k)
	}
	switch {
	case ty.IsPrimitiveType():
		n.val, n.leaf = g.leaf(tag, ty), true
	case ty.IsListType() || ty.IsSetType():
		et := ty.ElementType()
		ln := vChoice(tag+"-len", g.width+1)
		vals := make([]Value, ln)
		saveS, saveM := g.special, g.marks
		if ty.IsSetType() {
			// set members: wholly known, unmarked, pairwise different (so the model has one node per element)
			g.special, g.marks = 0, 0
		}
		for i := range vals {
			k := g.value(tag+string(rune('0'+i)), et)
			vals[i] = k.val
			if ty.IsSetType() {
				for _, prev := range vals[:i] {
					vAssume(!prev.RawEquals(k.val))
				}
			}
			if ty.IsListType() {
				add(k, IndexStep{Key: NumberIntVal(int64(i))}, false)
			} else {
				ev, _ := k.val.Unmark()
				add(k, IndexStep{Key: ev}, true)
			}
		}
		g.special, g.marks = saveS, saveM
		switch {
		case ln == 0 && ty.IsListType():
			n.val = ListValEmpty(et)
		case ln == 0:
			n.val = SetValEmpty(et)
		case ty.IsListType():
			n.val = ListVal(vals)
		default:
			n.val = SetVal(vals)
		}
	case ty.IsMapType():
		et := ty.ElementType()
		ln := vChoice(tag+"-len", g.width+1)
		vals := map[string]Value{}
		var used []string
		for i := 0; i < ln; i++ {
			name := g.keyName(tag, i, used)
			used = append(used, name)
			k := g.value(tag+string(rune('a'+i)), et)
			vals[name] = k.val
			add(k, IndexStep{Key: StringVal(name)}, false)
		}
		if ln == 0 {
			n.val = MapValEmpty(et)
		} else {
			n.val = MapVal(vals)
		}
	case ty.IsTupleType():
		ets := ty.TupleElementTypes()
		vals := make([]Value, len(ets))
		for i := range ets {
			k := g.value(tag+string(rune('0'+i)), ets[i])
			vals[i] = k.val
			add(k, IndexStep{Key: NumberIntVal(int64(i))}, false)
		}
		n.val = TupleVal(vals)
	case ty.IsObjectType():
		vals := map[string]Value{}
		for _, name := range []string{"a", "b", "c"} {
			if !ty.HasAttribute(name) {
				continue
			}
			k := g.value(tag+name, ty.AttributeType(name))
			vals[name] = k.val
			add(k, GetAttrStep{Name: name}, false)
		}
		n.val = ObjectVal(vals)
	default:
		panic("gvGen.known: unsupported type")
	}
	return n
}

// flatten lists the nodes in pre-order.
func (n *gvNode) flatten(out []*gvNode) []*gvNode {
	out = append(out, n)
	for _, k := range n.kids {
		out = k.flatten(out)
	}
	return out
}

func (n *gvNode) path() Path {
	if n.parent == nil {
		return Path{}
	}
	return append(n.parent.path(), n.step)
}

func (n *gvNode) throughSet() bool {
	for x := n; x != nil; x = x.parent {
		if x.inSet {
			return true
		}
	}
	return false
}

func gvSameStep(a, b PathStep) bool {
	switch a := a.(type) {
	case GetAttrStep:
		b, ok := b.(GetAttrStep)
		return ok && a.Name == b.Name
	case IndexStep:
		b, ok := b.(IndexStep)
		return ok && a.Key.RawEquals(b.Key)
	}
	return false
}

func gvSamePath(a, b Path) bool {
	if len(a) != len(b) {
		return false
	}
	for i := range a {
		if !gvSameStep(a[i], b[i]) {
			return false
		}
	}
	return true
}

func gvDeepMarks(v Value) ValueMarks {
	out := ValueMarks{}
	_, pvm := v.UnmarkDeepWithPaths()
	for _, pm := range pvm {
		for m := range pm.Marks {
			out[m] = struct{}{}
		}
	}
	return out
}
