//go:build verif

package convert

// C08 — conversion is conformant, total where safe, idempotent, preserves information, handles unknown and null
// soundly, and never panics.

import (
	"github.com/zclconf/go-cty/cty"
)

func init() {
	verifRegister("verifC08Derived", verifC08Derived)
	verifRegister("verifC08Derived2", verifC08Derived2)
	verifRegister("verifC08Cross", verifC08Cross)
	verifRegister("verifC08Prim", verifC08Prim)
	verifRegister("verifC08SetLen", verifC08SetLen)
	verifRegister("verifC08SetUnknown", verifC08SetUnknown)
}

// c08Check runs every conversion entry point on the pair (wholly known c, weakened w) and asserts the clauses of C08.
func c08Check(src cty.Type, p cvPair, want cty.Type) {
	var rc, rw cty.Value
	var ec, ew error
	vLog("src=%#v\n  | want=%#v\n  | c=%#v\n  | w=%#v", src, want, p.c, p.w)
	defer func() { vLog("rc=%#v ec=%v\n  | rw=%#v ew=%v", rc, ec, rw, ew) }()
	vKnown("F19-map-to-object-optional-placeholder", cvMapToOptionalDynamic(src, want))
	vAssert("convert-no-panic", !vExpectPanic(func() { rc, ec = Convert(p.c, want) }))
	vAssert("convert-weakened-no-panic", !vExpectPanic(func() { rw, ew = Convert(p.w, want) }))
	var safe, unsafe Conversion
	vAssert("getconversion-no-panic", !vExpectPanic(func() {
		safe = GetConversion(src, want)
		unsafe = GetConversionUnsafe(src, want)
	}))

	c08Result("known", p.c, want, rc, ec)
	c08Result("weakened", p.w, want, rw, ew)

	// the weakened input stands for (at least) the concrete one
	if ec == nil {
		vAssert("weakened-succeeds-when-concrete-does", ew == nil)
		if ew == nil {
			vAssert("weakened-result-admits-concrete-result", cvAdmits(rw, rc))
		}
	}
	if ew == nil {
		wu, _ := p.w.Unmark()
		ru, _ := rw.Unmark()
		if wu.IsNull() {
			vAssert("null-in-null-out", ru.IsNull())
		}
		if !wu.IsKnown() && want != cty.DynamicPseudoType {
			// an unknown input gives an unknown result, or a known one only where the refinements leave no choice
			// (then it must be the conversion of the concrete input, which the admits-assertion compares)
			vAssert("unknown-in-unknown-out", !ru.IsWhollyKnown() || ec == nil)
		}
	}

	// information is preserved where an inverse conversion exists
	if ec == nil && cvLossless(src, want) && !src.HasDynamicTypes() {
		var back cty.Value
		var eb error
		vAssert("roundtrip-no-panic", !vExpectPanic(func() { back, eb = Convert(rc, src) }))
		vAssert("roundtrip-succeeds", eb == nil)
		if eb == nil {
			vAssert("roundtrip-equal", cvSame(back, p.c))
		}
	}

	// safe conversions never fail (placeholder-free on both sides), and are offered as unsafe too
	if safe != nil {
		vAssert("safe-offered-as-unsafe", unsafe != nil)
		if !want.HasDynamicTypes() && !src.HasDynamicTypes() {
			for k, in := range []cty.Value{p.c, p.w} {
				var rs cty.Value
				var es error
				vAssert("safe-conversion-no-panic", !vExpectPanic(func() { rs, es = safe(in) }))
				vAssert("safe-conversion-never-fails", es == nil)
				if es == nil {
					if k == 0 && ec == nil {
						vAssert("safe-agrees-with-convert", cvSame(rs, rc))
					}
					if k == 1 && ec == nil {
						vAssert("safe-result-admits-concrete-result", cvAdmits(rs, rc))
					}
				}
			}
		}
	}
	if unsafe != nil && ec == nil {
		var ru cty.Value
		var eu error
		vAssert("unsafe-conversion-no-panic", !vExpectPanic(func() { ru, eu = unsafe(p.c) }))
		vAssert("unsafe-agrees-with-convert", eu == nil && cvSame(ru, rc))
	}
	if unsafe == nil && !src.Equals(want.WithoutOptionalAttributesDeep()) {
		vAssert("no-conversion-means-error", ec != nil && ew != nil)
	}
}

// c08Result: clauses about one successful conversion result.
func c08Result(tag string, in cty.Value, want cty.Type, r cty.Value, err error) {
	if err != nil {
		vReach("end-error-" + tag)
		return
	}
	inT, gotT := in.Type(), r.Type()
	vAssert("result-type-conforms", cvConforms(gotT, want))
	vAssert("result-well-formed", cty.VerifWellFormed(r) == "")
	vAssert("result-type-has-no-optional-attrs", cvNoOptional(gotT) || inT.Equals(gotT))
	vAssert("result-resolves-placeholders", cvResolved(inT, want, gotT))
	vAssert("result-keeps-top-level-marks", cvKeepsMarks(in, r))
	if inT.Equals(want) {
		vAssert("identity-on-conforming-value", r.RawEquals(in))
	}
	var r2 cty.Value
	var e2 error
	vAssert("reconvert-no-panic", !vExpectPanic(func() { r2, e2 = Convert(r, want) }))
	vAssert("reconvert-succeeds", e2 == nil)
	if e2 == nil {
		vAssert("idempotent", cvSame(r2, r))
	}
	vReach("end-ok-" + tag)
}

// verifC08Derived: depth-1 source types, every value shape, targets derived by up to two mutations.
func verifC08Derived() {
	g := &cvGen{special: 1 + vTier(), marks: 1, tmut: 2, width: 1 + vTier(), dynSrc: true}
	src := g.typ("t", 1)
	want := g.target("w", src)
	g.concStr = cvHasKind(want, cty.Number)
	p := g.value("v", src)
	c08Check(src, p, want)
}

// verifC08Derived2: depth-2 source types (narrower), targets derived by up to two (quick) / three (thorough) mutations.
func verifC08Derived2() {
	g := &cvGen{special: vTier(), marks: vTier(), tmut: 2 + vTier(), width: 1 + vTier(), dynSrc: vTier() > 0, shortStr: true}
	src := g.typ("t", 2)
	vAssume(cvDepth(src) == 2)
	want := g.target("w", src)
	g.concStr = cvHasKind(want, cty.Number)
	p := g.value("v", src)
	c08Check(src, p, want)
}

// verifC08Cross: unrelated pairs: every depth-1 source type against every depth-1 target type (with placeholders).
func verifC08Cross() {
	g := &cvGen{special: 1, marks: 0, width: 1 + vTier(), dynSrc: false}
	src := g.typ("t", 1)
	gt := &cvGen{width: 1 + vTier(), dynSrc: true}
	want := gt.typ("w", 1)
	g.concStr = cvHasKind(want, cty.Number)
	p := g.value("v", src)
	c08Check(src, p, want)
}

// verifC08Prim: primitive conversions on symbolic leaves (strings up to 5 bytes so that "true"/"false"/"1"/"0" are
// found by the solver).
func verifC08Prim() {
	var v cty.Value
	src := cvPrims[vChoice("src", 3)]
	switch src {
	case cty.String:
		n := vChoice("len", 6)
		v = cty.StringVal(vStr("s", n, '0', 'u'))
	case cty.Bool:
		v = cty.BoolVal(vBool("b"))
	default:
		v = []cty.Value{cty.NumberIntVal(0), cty.NumberIntVal(1), cty.NumberFloatVal(2.5), cty.NumberIntVal(-7)}[vChoice("n", 4)]
	}
	want := cvPrims[vChoice("want", 3)]
	if src == cty.String && want == cty.Number {
		v = cty.StringVal([]string{"1", "a", "true", "", "-2.5", "1e3"}[vChoice("cs", 6)])
	}
	c08Check(src, cvPair{v, v}, want)
	if src == cty.String && want == cty.Bool {
		s := v.AsString()
		r, err := Convert(v, want)
		isTrue := s == "true" || s == "1"
		isFalse := s == "false" || s == "0"
		vAssert("string-to-bool-domain", (err == nil) == (isTrue || isFalse))
		if err == nil {
			vAssert("string-to-bool-value", r.True() == isTrue)
		}
	}
}

// verifC08SetLen: length refinements across collection kind changes: an unknown collection with symbolic length bounds
// stands for a concrete collection of symbolic (possibly equal) members.
func verifC08SetLen() {
	kinds := []func(cty.Type) cty.Type{cty.List, cty.Set}
	srcK, dstK := vChoice("src", 2), vChoice("dst", 2)
	ety := cty.String
	n := vChoice("n", 4)
	elems := make([]cty.Value, n)
	for i := range elems {
		// "1" and "true" (and "0" and "false") are different strings that convert to the same bool
		switch vChoice("e-form", 3) {
		case 0:
			elems[i] = cty.StringVal(vStr("e", 1, '0', '2'))
		case 1:
			elems[i] = cty.StringVal("true")
		default:
			elems[i] = cty.StringVal("false")
		}
	}
	var c cty.Value
	src := kinds[srcK](ety)
	switch {
	case n == 0 && srcK == 0:
		c = cty.ListValEmpty(ety)
	case n == 0:
		c = cty.SetValEmpty(ety)
	case srcK == 0:
		c = cty.ListVal(elems)
	default:
		c = cty.SetVal(elems)
	}
	cn := int64(c.LengthInt())
	lo, hi := vInt("lo", 0, 5), vInt("hi", 0, 5)
	vAssume(vAnd(lo <= cn, cn <= hi))
	b := cty.UnknownVal(src).Refine().CollectionLengthLowerBound(int(lo)).CollectionLengthUpperBound(int(hi))
	if vBool("notnull") {
		b = b.NotNull()
	}
	w := b.NewValue()
	dstE := []cty.Type{cty.String, cty.Bool, cty.DynamicPseudoType}[vChoice("dstE", 3)]
	want := kinds[dstK](dstE)
	c08Check(src, cvPair{c, w}, want)
}

// verifC08SetUnknown: sets whose length is not known (two members, one of them unknown) converted to derived targets.
func verifC08SetUnknown() {
	g := &cvGen{tmut: 2, width: 1, shortStr: true}
	var et cty.Type
	if vTier() == 0 {
		et = []cty.Type{cty.String, cty.Bool, cty.Map(cty.String), cty.Object(map[string]cty.Type{"a": cty.String})}[vChoice("e", 4)]
	} else {
		et = g.typ("e", 1)
	}
	src := cty.Set(et)
	a := g.known("a", et)
	b := g.known("b", et)
	vAssume(!a.c.RawEquals(b.c))
	u := cty.UnknownVal(et)
	if vBool("notnull") {
		u = u.RefineNotNull()
	}
	p := cvPair{cty.SetVal([]cty.Value{a.c, b.c}), cty.SetVal([]cty.Value{a.c, u})}
	want := g.target("w", src)
	vAssume(!cvHasKind(want, cty.Number) || !cvHasKind(src, cty.String))
	c08Check(src, p, want)
}
