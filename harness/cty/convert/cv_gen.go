//go:build verif

package convert

// Shared generators and oracles for the conversion / unification harnesses (C08, C09, C04 conversions).
// Types and shapes are structural choices (forked); leaves (strings, bools, numbers, length bounds) are symbolic.

import (
	"github.com/zclconf/go-cty/cty"
)

var cvPrims = []cty.Type{cty.String, cty.Number, cty.Bool}

type cvGen struct {
	special int  // remaining non-plain nodes (null / unknown)
	marks   int  // remaining marked nodes
	tmut    int  // remaining target mutations
	width   int  // max members of tuples / objects / known collections
	dynSrc  bool // source types may contain placeholders
	concStr bool // strings are concrete (needed when they meet number parsing)
	shortStr bool // strings are one symbolic byte
	markN    int
	canon    bool // one canonical value per type: collections of one member, fixed leaves except bools
}

// ---------- types ----------

// cvType generates a type of nesting depth <= d.
func (g *cvGen) typ(tag string, d int) cty.Type {
	n := 3
	if g.dynSrc {
		n = 4
	}
	kinds := n
	if d > 0 {
		kinds = n + 5
	}
	k := vChoice(tag+"-kind", kinds)
	if k < 3 {
		return cvPrims[k]
	}
	if g.dynSrc {
		if k == 3 {
			return cty.DynamicPseudoType
		}
		k--
	}
	switch k - 3 {
	case 0:
		return cty.List(g.typ(tag+"e", d-1))
	case 1:
		return cty.Set(g.typ(tag+"e", d-1))
	case 2:
		return cty.Map(g.typ(tag+"e", d-1))
	case 3:
		ln := vChoice(tag+"-tlen", g.width+1)
		ts := make([]cty.Type, ln)
		for i := range ts {
			ts[i] = g.typ(tag+string(rune('0'+i)), d-1)
		}
		return cty.Tuple(ts)
	default:
		ln := vChoice(tag+"-olen", g.width+1)
		ats := map[string]cty.Type{}
		for i := 0; i < ln; i++ {
			name := string(rune('a' + i))
			ats[name] = g.typ(tag+name, d-1)
		}
		return cty.Object(ats)
	}
}

func cvDepth(t cty.Type) int {
	switch {
	case t.IsCollectionType():
		return 1 + cvDepth(t.ElementType())
	case t.IsTupleType():
		m := 0
		for _, e := range t.TupleElementTypes() {
			if d := cvDepth(e); d > m {
				m = d
			}
		}
		return 1 + m
	case t.IsObjectType():
		m := 0
		for _, e := range t.AttributeTypes() {
			if d := cvDepth(e); d > m {
				m = d
			}
		}
		return 1 + m
	}
	return 0
}

func cvHasKind(t cty.Type, prim cty.Type) bool {
	switch {
	case t == prim:
		return true
	case t.IsCollectionType():
		return cvHasKind(t.ElementType(), prim)
	case t.IsTupleType():
		for _, e := range t.TupleElementTypes() {
			if cvHasKind(e, prim) {
				return true
			}
		}
	case t.IsObjectType():
		for _, e := range t.AttributeTypes() {
			if cvHasKind(e, prim) {
				return true
			}
		}
	}
	return false
}

// target derives a conversion target from a source type: the same type, a placeholder, a kind change, an element
// conversion, attributes added / dropped / made optional, or something unrelated.
func (g *cvGen) target(tag string, t cty.Type) cty.Type {
	if g.tmut <= 0 {
		return t
	}
	switch {
	case t == cty.DynamicPseudoType:
		k := vChoice(tag+"-dyn", 3)
		if k == 0 {
			return t
		}
		g.tmut--
		if k == 1 {
			return cty.String
		}
		return cty.List(cty.String)
	case t.IsPrimitiveType():
		k := vChoice(tag+"-prim", 6)
		if k < 3 {
			if cvPrims[k] != t {
				g.tmut--
			}
			return cvPrims[k]
		}
		g.tmut--
		switch k {
		case 3:
			return cty.DynamicPseudoType
		case 4:
			return cty.List(t)
		}
		return cty.EmptyObject
	case t.IsListType() || t.IsSetType():
		k := vChoice(tag+"-seq", 7)
		if k == 0 {
			return t
		}
		if k == 1 {
			g.tmut--
			return cty.DynamicPseudoType
		}
		if k >= 4 {
			g.tmut--
			switch k {
			case 4:
				return cty.Map(t.ElementType())
			case 5:
				return cty.Tuple([]cty.Type{t.ElementType()})
			}
			return cty.Bool
		}
		e := g.target(tag+"e", t.ElementType())
		if (k == 2) != t.IsListType() {
			g.tmut--
		}
		if k == 2 {
			return cty.List(e)
		}
		return cty.Set(e)
	case t.IsMapType():
		k := vChoice(tag+"-map", 7)
		switch k {
		case 0:
			return t
		case 1:
			g.tmut--
			return cty.DynamicPseudoType
		case 2:
			return cty.Map(g.target(tag+"e", t.ElementType()))
		case 3: // object with one attribute
			g.tmut--
			return cty.Object(map[string]cty.Type{"a": g.target(tag+"a", t.ElementType())})
		case 4: // object with a required and an optional attribute
			g.tmut--
			return cty.ObjectWithOptionalAttrs(map[string]cty.Type{"a": t.ElementType(), "b": g.target(tag+"b", t.ElementType())}, []string{"b"})
		case 5: // optional attribute whose type differs in shape from the element type
			g.tmut--
			return cty.ObjectWithOptionalAttrs(map[string]cty.Type{"a": t.ElementType(), "b": cty.Tuple([]cty.Type{cty.String})}, []string{"b"})
		}
		g.tmut--
		return cty.List(t.ElementType())
	case t.IsTupleType():
		ets := t.TupleElementTypes()
		k := vChoice(tag+"-tup", 7)
		switch k {
		case 0:
			return t
		case 1:
			g.tmut--
			return cty.DynamicPseudoType
		case 2:
			out := make([]cty.Type, len(ets))
			for i := range ets {
				out[i] = g.target(tag+string(rune('0'+i)), ets[i])
			}
			return cty.Tuple(out)
		case 3, 4: // list / set of a derived first element type, or of the placeholder
			g.tmut--
			var e cty.Type = cty.DynamicPseudoType
			if len(ets) > 0 && vChoice(tag+"-ety", 2) == 1 {
				e = g.target(tag+"e", ets[0])
			}
			if k == 3 {
				return cty.List(e)
			}
			return cty.Set(e)
		case 5: // wrong length
			g.tmut--
			return cty.Tuple(append(append([]cty.Type{}, ets...), cty.String))
		}
		g.tmut--
		return cty.Map(cty.String)
	case t.IsObjectType():
		ats := t.AttributeTypes()
		k := vChoice(tag+"-obj", 8)
		switch k {
		case 0:
			return t
		case 1:
			g.tmut--
			return cty.DynamicPseudoType
		case 2, 3, 4, 5:
			out := map[string]cty.Type{}
			for _, name := range []string{"a", "b"} {
				if at, ok := ats[name]; ok {
					out[name] = g.target(tag+name, at)
				}
			}
			var opt []string
			switch k {
			case 3: // drop attribute a
				g.tmut--
				delete(out, "a")
			case 4: // extra optional attribute
				g.tmut--
				out["z"] = cty.String
				opt = []string{"z"}
			case 5: // extra required attribute, existing ones optional
				g.tmut--
				out["z"] = cty.Object(map[string]cty.Type{"q": cty.DynamicPseudoType})
				for n := range ats {
					opt = append(opt, n)
				}
			}
			if opt != nil {
				return cty.ObjectWithOptionalAttrs(out, opt)
			}
			return cty.Object(out)
		case 6:
			g.tmut--
			var e cty.Type = cty.DynamicPseudoType
			if at, ok := ats["a"]; ok && vChoice(tag+"-ety", 2) == 1 {
				e = g.target(tag+"e", at)
			}
			return cty.Map(e)
		}
		g.tmut--
		return cty.List(cty.String)
	}
	return t
}

// ---------- values ----------

// cvPair is a wholly known value c together with a weakening w of it: the same value with some parts replaced by
// unknown placeholders whose refinements are true of the replaced part (or the same null / known part).
type cvPair struct{ c, w cty.Value }

func (g *cvGen) leafString(tag string) cty.Value {
	if g.canon {
		return cty.StringVal("1")
	}
	if g.concStr {
		return cty.StringVal([]string{"1", "a", "true"}[vChoice(tag+"-s", 3)])
	}
	if g.shortStr || vChoice(tag+"-slen", 2) == 0 {
		return cty.StringVal(vStr(tag, 1, '0', '2'))
	}
	return cty.StringVal(vStr(tag, 4, 'a', 'u'))
}

func (g *cvGen) known(tag string, t cty.Type) cvPair {
	switch {
	case t == cty.String:
		v := g.leafString(tag)
		return cvPair{v, v}
	case t == cty.Bool:
		v := cty.BoolVal(vBool(tag))
		return cvPair{v, v}
	case t == cty.Number:
		if g.canon {
			return cvPair{cty.NumberIntVal(1), cty.NumberIntVal(1)}
		}
		v := []cty.Value{cty.NumberIntVal(0), cty.NumberIntVal(1), cty.NumberFloatVal(2.5)}[vChoice(tag+"-n", 3)]
		return cvPair{v, v}
	case t == cty.DynamicPseudoType:
		// a value in a dynamically typed position has some concrete type
		v := cty.BoolVal(vBool(tag))
		return cvPair{v, v}
	case t.IsListType() || t.IsSetType():
		et := t.ElementType()
		ln := 1
		if !g.canon {
			ln = vChoice(tag+"-len", g.width+1)
		}
		if et.HasDynamicTypes() {
			ln = 0
		}
		if ln == 0 {
			if t.IsListType() {
				return cvPair{cty.ListValEmpty(et), cty.ListValEmpty(et)}
			}
			return cvPair{cty.SetValEmpty(et), cty.SetValEmpty(et)}
		}
		cs, ws := make([]cty.Value, ln), make([]cty.Value, ln)
		for i := range cs {
			p := g.value(tag+string(rune('0'+i)), et)
			cs[i], ws[i] = p.c, p.w
		}
		if t.IsListType() {
			return cvPair{cty.ListVal(cs), cty.ListVal(ws)}
		}
		return cvPair{cty.SetVal(cs), cty.SetVal(ws)}
	case t.IsMapType():
		et := t.ElementType()
		ln := 1
		if !g.canon {
			ln = vChoice(tag+"-len", g.width+1)
		}
		if et.HasDynamicTypes() {
			ln = 0
		}
		if ln == 0 {
			return cvPair{cty.MapValEmpty(et), cty.MapValEmpty(et)}
		}
		keys := []string{"a", "b"}
		if !g.canon && vChoice(tag+"-keys", 2) == 1 {
			keys = []string{"c", "a"}
		}
		cs, ws := map[string]cty.Value{}, map[string]cty.Value{}
		for i := 0; i < ln; i++ {
			p := g.value(tag+keys[i], et)
			cs[keys[i]], ws[keys[i]] = p.c, p.w
		}
		return cvPair{cty.MapVal(cs), cty.MapVal(ws)}
	case t.IsTupleType():
		ets := t.TupleElementTypes()
		cs, ws := make([]cty.Value, len(ets)), make([]cty.Value, len(ets))
		for i := range ets {
			p := g.value(tag+string(rune('0'+i)), ets[i])
			cs[i], ws[i] = p.c, p.w
		}
		return cvPair{cty.TupleVal(cs), cty.TupleVal(ws)}
	case t.IsObjectType():
		cs, ws := map[string]cty.Value{}, map[string]cty.Value{}
		for _, name := range []string{"a", "b"} {
			if at, ok := t.AttributeTypes()[name]; ok {
				p := g.value(tag+name, at)
				cs[name], ws[name] = p.c, p.w
			}
		}
		return cvPair{cty.ObjectVal(cs), cty.ObjectVal(ws)}
	}
	panic("cvGen.known: unsupported type")
}

// value generates a pair for type t: plain known, null, or a known value weakened to an unknown placeholder.
func (g *cvGen) value(tag string, t cty.Type) cvPair {
	mode := 0
	if g.special > 0 {
		mode = vChoice(tag+"-mode", 3)
		if mode != 0 {
			g.special--
		}
	}
	var p cvPair
	switch mode {
	case 1:
		p = cvPair{cty.NullVal(t), cty.NullVal(t)}
	case 2:
		save, saveM := g.special, g.marks
		g.special, g.marks = 0, 0 // the replaced part itself is plain and unmarked
		p = g.known(tag, t)
		g.special, g.marks = save, saveM
		if t == cty.DynamicPseudoType {
			p.w = cty.DynamicVal
			break
		}
		u := cty.UnknownVal(t)
		canNull := vBool(tag + "-maynull")
		if !canNull {
			u = u.RefineNotNull()
		} else if vChoice(tag+"-isnull", 2) == 1 {
			p.c = cty.NullVal(t)
		}
		if t.IsCollectionType() && !p.c.IsNull() {
			n := int64(p.c.LengthInt())
			lo, hi := vInt(tag+"-lo", 0, 4), vInt(tag+"-hi", 0, 4)
			vAssume(vAnd(lo <= n, n <= hi))
			u = u.Refine().CollectionLengthLowerBound(int(lo)).CollectionLengthUpperBound(int(hi)).NewValue()
		}
		p.w = u
	default:
		p = g.known(tag, t)
	}
	if g.marks > 0 && vChoice(tag+"-mark", 2) == 1 {
		g.marks--
		g.markN++
		m := "m" + string(rune('0'+g.markN))
		p.c, p.w = p.c.Mark(m), p.w.Mark(m)
	}
	return p
}

// ---------- oracles (independent of the conversion code) ----------

// cvConforms: type got conforms to constraint want, disregarding optional-attribute annotations.
func cvConforms(got, want cty.Type) bool {
	switch {
	case want == cty.DynamicPseudoType:
		return true
	case want.IsPrimitiveType():
		return got == want
	case want.IsListType():
		return got.IsListType() && cvConforms(got.ElementType(), want.ElementType())
	case want.IsSetType():
		return got.IsSetType() && cvConforms(got.ElementType(), want.ElementType())
	case want.IsMapType():
		return got.IsMapType() && cvConforms(got.ElementType(), want.ElementType())
	case want.IsTupleType():
		if !got.IsTupleType() || got.Length() != want.Length() {
			return false
		}
		for i, wt := range want.TupleElementTypes() {
			if !cvConforms(got.TupleElementType(i), wt) {
				return false
			}
		}
		return true
	case want.IsObjectType():
		if !got.IsObjectType() || len(got.AttributeTypes()) != len(want.AttributeTypes()) {
			return false
		}
		for name, wt := range want.AttributeTypes() {
			if !got.HasAttribute(name) || !cvConforms(got.AttributeType(name), wt) {
				return false
			}
		}
		return true
	}
	return got.Equals(want)
}

func cvNoOptional(t cty.Type) bool {
	switch {
	case t.IsCollectionType():
		return cvNoOptional(t.ElementType())
	case t.IsTupleType():
		for _, e := range t.TupleElementTypes() {
			if !cvNoOptional(e) {
				return false
			}
		}
	case t.IsObjectType():
		if len(t.OptionalAttributes()) != 0 {
			return false
		}
		for _, e := range t.AttributeTypes() {
			if !cvNoOptional(e) {
				return false
			}
		}
	}
	return true
}

// cvResolved: wherever the constraint has a placeholder and the input type has a placeholder-free type in the
// corresponding position (same kind of container on both sides), the result type has no placeholder there.
func cvResolved(in, want, got cty.Type) bool {
	switch {
	case want == cty.DynamicPseudoType:
		return in.HasDynamicTypes() || !got.HasDynamicTypes()
	case want.IsCollectionType() && in.IsCollectionType() && got.IsCollectionType():
		if want.IsMapType() != in.IsMapType() {
			return true
		}
		return cvResolved(in.ElementType(), want.ElementType(), got.ElementType())
	case want.IsTupleType() && in.IsTupleType() && got.IsTupleType() && in.Length() == want.Length() && got.Length() == want.Length():
		for i := range want.TupleElementTypes() {
			if !cvResolved(in.TupleElementType(i), want.TupleElementType(i), got.TupleElementType(i)) {
				return false
			}
		}
	case want.IsObjectType() && in.IsObjectType() && got.IsObjectType():
		for name, wt := range want.AttributeTypes() {
			if in.HasAttribute(name) && got.HasAttribute(name) && !cvResolved(in.AttributeType(name), wt, got.AttributeType(name)) {
				return false
			}
		}
	}
	return true
}

// cvKeepsMarks: every top-level mark of in is on r.
func cvKeepsMarks(in, r cty.Value) bool {
	rm := r.Marks()
	for m := range in.Marks() {
		if _, ok := rm[m]; !ok {
			return false
		}
	}
	return true
}

func cvSameMarks(a, b cty.Value) bool {
	am, bm := a.Marks(), b.Marks()
	if len(am) != len(bm) {
		return false
	}
	for m := range am {
		if _, ok := bm[m]; !ok {
			return false
		}
	}
	return true
}

// cvSame: a and b describe the same value: RawEquals, or equal up to the representation of unknown placeholders
// (compared by type, nullability and length bounds).
func cvSame(a, b cty.Value) bool {
	if a.RawEquals(b) {
		return true
	}
	if !cvSameMarks(a, b) {
		return false
	}
	a, _ = a.Unmark()
	b, _ = b.Unmark()
	if !a.Type().Equals(b.Type()) {
		return false
	}
	if a.IsKnown() != b.IsKnown() {
		return false
	}
	if !a.IsKnown() {
		if a.Type() == cty.DynamicPseudoType {
			return true
		}
		ra, rb := a.Range(), b.Range()
		if ra.DefinitelyNotNull() != rb.DefinitelyNotNull() {
			return false
		}
		if a.Type().IsCollectionType() {
			return ra.LengthLowerBound() == rb.LengthLowerBound() && ra.LengthUpperBound() == rb.LengthUpperBound()
		}
		return true
	}
	if a.IsNull() != b.IsNull() {
		return false
	}
	if a.IsNull() {
		return true
	}
	t := a.Type()
	switch {
	case t.IsListType() || t.IsTupleType():
		if a.LengthInt() != b.LengthInt() {
			return false
		}
		as, bs := a.AsValueSlice(), b.AsValueSlice()
		for i := range as {
			if !cvSame(as[i], bs[i]) {
				return false
			}
		}
		return true
	case t.IsMapType() || t.IsObjectType():
		am, bm := a.AsValueMap(), b.AsValueMap()
		if len(am) != len(bm) {
			return false
		}
		for k, av := range am {
			bv, ok := bm[k]
			if !ok || !cvSame(av, bv) {
				return false
			}
		}
		return true
	case t.IsSetType():
		// sets holding unknown members: compare sizes only (members cannot be paired up)
		return a.LengthInt() == b.LengthInt()
	}
	return false
}

// cvCompatible: two types agree wherever neither has a placeholder (a null of a placeholder type stands for a null of
// any type in that position).
func cvCompatible(a, b cty.Type) bool {
	switch {
	case a == cty.DynamicPseudoType || b == cty.DynamicPseudoType:
		return true
	case a.IsPrimitiveType() || b.IsPrimitiveType():
		return a == b
	case a.IsListType():
		return b.IsListType() && cvCompatible(a.ElementType(), b.ElementType())
	case a.IsSetType():
		return b.IsSetType() && cvCompatible(a.ElementType(), b.ElementType())
	case a.IsMapType():
		return b.IsMapType() && cvCompatible(a.ElementType(), b.ElementType())
	case a.IsTupleType():
		if !b.IsTupleType() || a.Length() != b.Length() {
			return false
		}
		for i := range a.TupleElementTypes() {
			if !cvCompatible(a.TupleElementType(i), b.TupleElementType(i)) {
				return false
			}
		}
		return true
	case a.IsObjectType():
		if !b.IsObjectType() || len(a.AttributeTypes()) != len(b.AttributeTypes()) {
			return false
		}
		for name, at := range a.AttributeTypes() {
			if !b.HasAttribute(name) || !cvCompatible(at, b.AttributeType(name)) {
				return false
			}
		}
		return true
	}
	return a.Equals(b)
}

// cvAdmits: the (possibly partly unknown) value w admits the wholly known value c.
func cvAdmits(w, c cty.Value) bool {
	if !cvSameMarks(w, c) {
		return false
	}
	w, _ = w.Unmark()
	c, _ = c.Unmark()
	if !cvCompatible(c.Type(), w.Type()) {
		return false
	}
	if !w.IsKnown() {
		if w.Type() == cty.DynamicPseudoType {
			return true
		}
		rng := w.Range()
		if c.IsNull() {
			return !rng.DefinitelyNotNull()
		}
		if w.Type().IsCollectionType() && c.IsKnown() {
			n := c.LengthInt()
			return rng.LengthLowerBound() <= n && n <= rng.LengthUpperBound()
		}
		return true
	}
	if w.IsNull() || c.IsNull() {
		return w.IsNull() && c.IsNull()
	}
	if !c.IsKnown() {
		return false
	}
	t := w.Type()
	switch {
	case t.IsPrimitiveType():
		return w.RawEquals(c)
	case t.IsListType() || t.IsTupleType():
		if w.LengthInt() != c.LengthInt() {
			return false
		}
		ws, cs := w.AsValueSlice(), c.AsValueSlice()
		for i := range ws {
			if !cvAdmits(ws[i], cs[i]) {
				return false
			}
		}
		return true
	case t.IsMapType() || t.IsObjectType():
		wm, cm := w.AsValueMap(), c.AsValueMap()
		if len(wm) != len(cm) {
			return false
		}
		for k, wv := range wm {
			cv, ok := cm[k]
			if !ok || !cvAdmits(wv, cv) {
				return false
			}
		}
		return true
	case t.IsSetType():
		if w.IsWhollyKnown() {
			return w.RawEquals(c)
		}
		lr := w.Length()
		n := c.LengthInt()
		if lr.IsKnown() {
			l, _ := lr.AsBigFloat().Int64()
			return int(l) == n
		}
		r := lr.Range()
		lo, _ := r.NumberLowerBound()
		hi, _ := r.NumberUpperBound()
		nv := cty.NumberIntVal(int64(n))
		return !(lo.IsKnown() && nv.LessThan(lo).True()) && !(hi.IsKnown() && nv.GreaterThan(hi).True())
	}
	return true
}

// cvLossless: converting from in to out and back to in reproduces every value (an inverse conversion exists).
func cvLossless(in, out cty.Type) bool {
	switch {
	case out == cty.DynamicPseudoType || in.Equals(out):
		return true
	case in.IsPrimitiveType() && out.IsPrimitiveType():
		return out == cty.String
	case in.IsListType() && out.IsListType(), in.IsSetType() && out.IsSetType(), in.IsMapType() && out.IsMapType(), in.IsSetType() && out.IsListType():
		return cvLossless(in.ElementType(), out.ElementType())
	case in.IsTupleType() && out.IsTupleType() && in.Length() == out.Length():
		for i := range in.TupleElementTypes() {
			if !cvLossless(in.TupleElementType(i), out.TupleElementType(i)) {
				return false
			}
		}
		return true
	case in.IsObjectType() && out.IsObjectType():
		for name, it := range in.AttributeTypes() {
			if !out.HasAttribute(name) || !cvLossless(it, out.AttributeType(name)) {
				return false
			}
		}
		return true
	}
	return false
}

// cvMapToOptionalDynamic characterises known finding F19: somewhere in the request a map-typed source position is
// converted to an object type that has an optional attribute whose type contains a placeholder.
func cvMapToOptionalDynamic(in, want cty.Type) bool {
	switch {
	case want.IsObjectType() && in.IsMapType():
		for name := range want.OptionalAttributes() {
			if want.AttributeType(name).HasDynamicTypes() {
				return true
			}
		}
		for _, at := range want.AttributeTypes() {
			if cvMapToOptionalDynamic(in.ElementType(), at) {
				return true
			}
		}
	case want.IsObjectType() && in.IsObjectType():
		for name, at := range want.AttributeTypes() {
			if in.HasAttribute(name) && cvMapToOptionalDynamic(in.AttributeType(name), at) {
				return true
			}
		}
	case want.IsCollectionType() && in.IsCollectionType():
		return cvMapToOptionalDynamic(in.ElementType(), want.ElementType())
	case want.IsCollectionType() && in.IsTupleType():
		for _, et := range in.TupleElementTypes() {
			if cvMapToOptionalDynamic(et, want.ElementType()) {
				return true
			}
		}
	case want.IsCollectionType() && in.IsObjectType():
		for _, at := range in.AttributeTypes() {
			if cvMapToOptionalDynamic(at, want.ElementType()) {
				return true
			}
		}
	case want.IsTupleType() && in.IsTupleType() && in.Length() == want.Length():
		for i := range want.TupleElementTypes() {
			if cvMapToOptionalDynamic(in.TupleElementType(i), want.TupleElementType(i)) {
				return true
			}
		}
	}
	return false
}

// cvDeepMarks: every mark anywhere inside v.
func cvDeepMarks(v cty.Value) cty.ValueMarks {
	out := cty.ValueMarks{}
	_, pvm := v.UnmarkDeepWithPaths()
	for _, pm := range pvm {
		for m := range pm.Marks {
			out[m] = struct{}{}
		}
	}
	return out
}

func cvMarksSubset(a, b cty.ValueMarks) bool {
	for m := range a {
		if _, ok := b[m]; !ok {
			return false
		}
	}
	return true
}

// cvMayDrop: converting from in to want can discard members of the value (attributes or map keys without a
// counterpart), so marks on discarded members legitimately disappear.
func cvMayDrop(in, want cty.Type) bool {
	switch {
	case want == cty.DynamicPseudoType:
		return false
	case want.IsObjectType() && in.IsMapType():
		return true
	case want.IsObjectType() && in.IsObjectType():
		for name, at := range in.AttributeTypes() {
			if !want.HasAttribute(name) || cvMayDrop(at, want.AttributeType(name)) {
				return true
			}
		}
	case want.IsCollectionType() && in.IsCollectionType():
		return cvMayDrop(in.ElementType(), want.ElementType())
	case want.IsCollectionType() && in.IsTupleType():
		for _, et := range in.TupleElementTypes() {
			if cvMayDrop(et, want.ElementType()) {
				return true
			}
		}
	case want.IsCollectionType() && in.IsObjectType():
		for _, at := range in.AttributeTypes() {
			if cvMayDrop(at, want.ElementType()) {
				return true
			}
		}
	case want.IsTupleType() && in.IsTupleType() && in.Length() == want.Length():
		for i := range want.TupleElementTypes() {
			if cvMayDrop(in.TupleElementType(i), want.TupleElementType(i)) {
				return true
			}
		}
	}
	return false
}
