//go:build verif

package convert

// C06 (conversion part) — conversion results are well-formed for their type, also through the public accessors.

import (
	"github.com/zclconf/go-cty/cty"
)

func init() {
	verifRegister("verifC06Convert", verifC06Convert)
}

func verifC06Convert() {
	g := &cvGen{special: vTier(), marks: vTier(), tmut: 2, width: 1 + vTier(), dynSrc: vTier() > 0, shortStr: true}
	src := g.typ("t", 2)
	want := g.target("w", src)
	g.concStr = cvHasKind(want, cty.Number)
	p := g.value("v", src)
	for _, in := range []cty.Value{p.c, p.w} {
		var r cty.Value
		var err error
		if vExpectPanic(func() { r, err = Convert(in, want) }) || err != nil {
			continue
		}
		why := cty.VerifWellFormed(r)
		if why != "" {
			vLog("in=%#v want=%#v r=%#v: %s", in, want, r, why)
		}
		vAssert("converted-value-well-formed", why == "")
		vAssert("converted-value-accessors-work", cty.VerifAccessorsWork(r))
	}
	vReach("end")
}

func init() {
	verifRegister("verifC06OptionalDeep", verifC06OptionalDeep)
}

// c06OptObj: an object type with optional attributes; variants nest a second annotated object under an attribute and
// put a placeholder beside it.
func c06OptObj(tag string) cty.Type {
	inner := cty.ObjectWithOptionalAttrs(map[string]cty.Type{"a": cty.String, "b": cty.String}, []string{"b"})
	switch vChoice(tag+"-opt", 4) {
	case 0:
		return inner
	case 1:
		return cty.ObjectWithOptionalAttrs(map[string]cty.Type{"a": cty.DynamicPseudoType, "b": cty.String}, []string{"b"})
	case 2:
		return cty.ObjectWithOptionalAttrs(map[string]cty.Type{"a": cty.String, "p": inner}, []string{"p"})
	}
	return cty.ObjectWithOptionalAttrs(map[string]cty.Type{"a": cty.DynamicPseudoType, "p": cty.List(inner)}, []string{"p"})
}

// c06DeepTarget: the annotated object under collections, tuples and plain objects (where a shallow strip misses it).
func c06DeepTarget(tag string) cty.Type {
	o := c06OptObj(tag)
	switch vChoice(tag+"-wrap", 9) {
	case 0:
		return cty.List(o)
	case 1:
		return cty.Set(o)
	case 2:
		return cty.Map(o)
	case 3:
		return cty.Tuple([]cty.Type{o})
	case 4:
		return cty.Object(map[string]cty.Type{"x": cty.List(o)})
	case 5:
		return cty.Object(map[string]cty.Type{"x": cty.Map(cty.List(o))})
	case 6:
		return cty.Object(map[string]cty.Type{"x": cty.Tuple([]cty.Type{o}), "y": cty.String})
	case 7:
		return cty.List(cty.Object(map[string]cty.Type{"x": cty.Set(o)}))
	}
	return o
}

// verifC06OptionalDeep: conversions toward types that carry optional-attribute annotations at depth, from the inputs
// for which the result type is not inferred from converted members (dynamic values, nulls, unknowns, empty
// collections / tuples / objects, absent attributes): the result's type never carries an annotation, equals the
// type obtained from a non-empty input where one exists, and converting again changes nothing.
func verifC06OptionalDeep() {
	want := c06DeepTarget("w")
	plain := cty.Object(map[string]cty.Type{"a": cty.String})
	var in cty.Value
	switch vChoice("in", 16) {
	case 0:
		in = cty.DynamicVal
	case 1:
		in = cty.NullVal(cty.DynamicPseudoType)
	case 2:
		in = cty.EmptyTupleVal
	case 3:
		in = cty.EmptyObjectVal
	case 4:
		in = cty.ListValEmpty(plain)
	case 5:
		in = cty.ListValEmpty(cty.DynamicPseudoType)
	case 6:
		in = cty.SetValEmpty(plain)
	case 7:
		in = cty.MapValEmpty(plain)
	case 8:
		in = cty.MapValEmpty(cty.DynamicPseudoType)
	case 9:
		in = cty.SetVal([]cty.Value{cty.ObjectVal(map[string]cty.Value{"a": cty.StringVal("s")}), cty.UnknownVal(plain)})
	case 10:
		in = cty.NullVal(cty.List(plain))
	case 11:
		in = cty.UnknownVal(cty.Map(plain))
	case 12:
		in = cty.ObjectVal(map[string]cty.Value{"x": cty.EmptyTupleVal, "y": cty.StringVal("s")})
	case 13:
		in = cty.ObjectVal(map[string]cty.Value{"x": cty.ListValEmpty(plain), "y": cty.StringVal("s")})
	case 14:
		in = cty.ObjectVal(map[string]cty.Value{"x": cty.MapValEmpty(cty.List(plain)), "a": cty.StringVal("s")})
	default:
		in = cty.ListVal([]cty.Value{cty.ObjectVal(map[string]cty.Value{"a": cty.StringVal("s")})})
	}
	var r cty.Value
	var err error
	p := vExpectPanic(func() { r, err = Convert(in, want) })
	vAssert("conversion-does-not-panic", !p)
	if p || err != nil {
		vReach("end-refused")
		return
	}
	why := cty.VerifWellFormed(r)
	if why != "" {
		vLog("in=%#v want=%#v r=%#v: %s", in, want, r, why)
	}
	vAssert("result-type-carries-no-optional-annotation", cvNoOptional(r.Type()) && why == "")
	var r2 cty.Value
	p = vExpectPanic(func() { r2, err = Convert(r, want) })
	vAssert("converting-again-changes-nothing", !p && err == nil && r2.Type().Equals(r.Type()))
	vReach("end")
}
