//go:build verif

package convert

// C06 (conversion part) — conversion results are well-formed for their type, also through the public accessors.

import (
	"github.com/zclconf/go-cty/cty"
)

func init() {
	verifRegister("verifC06Convert", verifC06Convert)
}

func verifC06Convert() {
	g := &cvGen{special: vTier(), marks: vTier(), tmut: 2, width: 1 + vTier(), dynSrc: vTier() > 0, shortStr: true}
	src := g.typ("t", 2)
	want := g.target("w", src)
	g.concStr = cvHasKind(want, cty.Number)
	p := g.value("v", src)
	for _, in := range []cty.Value{p.c, p.w} {
		var r cty.Value
		var err error
		if vExpectPanic(func() { r, err = Convert(in, want) }) || err != nil {
			continue
		}
		why := cty.VerifWellFormed(r)
		if why != "" {
			vLog("in=%#v want=%#v r=%#v: %s", in, want, r, why)
		}
		vAssert("converted-value-well-formed", why == "")
		vAssert("converted-value-accessors-work", cty.VerifAccessorsWork(r))
	}
	vReach("end")
}
