//go:build verif

package convert

// C04 (conversion part) — marks never change what a conversion computes, every mark of the converted value (nested
// ones included, docs/marks.md "Marks Under Conversion") is on the result, and no mark is invented.

import (
	"github.com/zclconf/go-cty/cty"
)

func init() {
	verifRegister("verifC04Convert", verifC04Convert)
}

func verifC04Convert() {
	g := &cvGen{special: 1, marks: 2, tmut: 2, width: 1 + vTier(), dynSrc: false, shortStr: true}
	src := g.typ("t", 1+vTier())
	want := g.target("w", src)
	g.concStr = cvHasKind(want, cty.Number)
	p := g.value("v", src)
	in := p.w
	vAssume(in.ContainsMarked())
	plain, _ := in.UnmarkDeep()
	vLog("in=%#v want=%#v", in, want)
	var rm, ru cty.Value
	var em, eu error
	vAssert("convert-marked-no-panic", !vExpectPanic(func() { rm, em = Convert(in, want) }))
	vAssert("convert-unmarked-no-panic", !vExpectPanic(func() { ru, eu = Convert(plain, want) }))
	vLog("rm=%#v em=%v ru=%#v eu=%v", rm, em, ru, eu)
	vAssert("same-outcome-with-and-without-marks", (em == nil) == (eu == nil))
	if em != nil || eu != nil {
		vReach("end-error")
		return
	}
	rmPlain, _ := rm.UnmarkDeep()
	vAssert("same-result-with-and-without-marks", cvSame(rmPlain, ru))
	vAssert("unmarked-input-gives-unmarked-result", !ru.ContainsMarked())
	inMarks, outMarks := cvDeepMarks(in), cvDeepMarks(rm)
	vAssert("no-mark-invented", cvMarksSubset(outMarks, inMarks))
	vAssert("top-level-marks-kept", cvKeepsMarks(in, rm))
	if !cvMayDrop(src, want) {
		vAssert("nested-marks-kept", cvMarksSubset(inMarks, outMarks))
	}
	vReach("end-ok")
}
