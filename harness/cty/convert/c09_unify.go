//go:build verif

package convert

// C09 — unification returns a type every input really converts to.

import (
	"github.com/zclconf/go-cty/cty"
)

func init() {
	verifRegister("verifC09Pairs", verifC09Pairs)
	verifRegister("verifC09Triples", verifC09Triples)
	verifRegister("verifC09Menu", verifC09Menu)
	verifRegister("verifC09Deep", verifC09Deep)
}

func c09AllPlaceholderFree(types []cty.Type) bool {
	for _, t := range types {
		if t.HasDynamicTypes() {
			return false
		}
	}
	return true
}

// c09Check runs safe and unsafe unification of the list and asserts the clauses of C09 on generated values of each
// input type (a wholly known value and a weakening of it).
func c09Check(g *cvGen, types []cty.Type) {
	vLog("types=%#v", types)
	var st, ut cty.Type
	var sc, uc []Conversion
	vAssert("unify-no-panic", !vExpectPanic(func() { st, sc = Unify(types) }))
	vAssert("unify-unsafe-no-panic", !vExpectPanic(func() { ut, uc = UnifyUnsafe(types) }))
	vLog("safe=%#v unsafe=%#v", st, ut)
	free := c09AllPlaceholderFree(types)
	if free && st != cty.NilType {
		vAssert("unsafe-succeeds-when-safe-does", ut != cty.NilType)
	}
	allEqual := true
	for _, t := range types[1:] {
		if !t.Equals(types[0]) {
			allEqual = false
		}
	}
	if allEqual {
		vAssert("equal-types-unify-to-that-type", st != cty.NilType && st.Equals(types[0]) && ut != cty.NilType && ut.Equals(types[0]))
		for i := range types {
			if st != cty.NilType && ut != cty.NilType {
				vAssert("equal-types-need-no-conversion", sc[i] == nil && uc[i] == nil)
			}
		}
	}
	var ps []cvPair
	if st != cty.NilType || ut != cty.NilType {
		for i, t := range types {
			ps = append(ps, g.value("v"+string(rune('0'+i)), t))
		}
	}
	for mode := 0; mode < 2; mode++ {
		ty, convs := st, sc
		if mode == 1 {
			ty, convs = ut, uc
		}
		if ty == cty.NilType {
			vAssert("failure-returns-no-conversions", convs == nil)
			vReach("end-failed")
			continue
		}
		vAssert("one-conversion-slot-per-input", len(convs) == len(types))
		if len(convs) != len(types) {
			continue
		}
		for i, t := range types {
			p := ps[i]
			conv := convs[i]
			if free {
				vAssert("conversion-absent-iff-input-is-result", (conv == nil) == t.Equals(ty))
				if mode == 0 && conv != nil {
					var gc Conversion
					vAssert("getconversion-no-panic", !vExpectPanic(func() { gc = GetConversion(t, ty) }))
					vAssert("safe-unification-uses-safe-conversions", gc != nil)
				}
			}
			if conv == nil {
				vAssert("unconverted-input-has-result-type", cvConforms(t, ty))
				continue
			}
			for k, in := range []cty.Value{p.c, p.w} {
				var r cty.Value
				var err error
				vLog("mode=%d in=%#v", mode, in)
				vAssert("conversion-no-panic", !vExpectPanic(func() { r, err = conv(in) }))
				vLog("  r=%#v err=%v", r, err)
				if err != nil {
					if free && mode == 0 {
						vAssert("safe-conversion-never-fails", false)
					}
					continue
				}
				if ty.HasDynamicTypes() {
					vAssert("converted-value-conforms-to-unified-type", cvConforms(r.Type(), ty))
				} else {
					vAssert("converted-value-has-unified-type", r.Type().Equals(ty))
				}
				vAssert("converted-value-type-has-no-optional-attrs", cvNoOptional(r.Type()))
				vAssert("converted-value-well-formed", cty.VerifWellFormed(r) == "")
				if k == 1 && free {
					var rc cty.Value
					var ec error
					if !vExpectPanic(func() { rc, ec = conv(p.c) }) && ec == nil {
						vAssert("weakened-result-admits-concrete-result", cvAdmits(r, rc))
					}
				}
			}
		}
		vReach("end-unified")
	}
}

// verifC09Pairs: every pair of depth-1 types (placeholders included).
func verifC09Pairs() {
	g := &cvGen{special: 1, width: 1 + vTier(), dynSrc: true, canon: true}
	types := []cty.Type{g.typ("t0", 1), g.typ("t1", 1)}
	c09Check(g, types)
}

// verifC09Triples: triples of depth-1 types with at most one member per tuple / object; single types.
func verifC09Triples() {
	g := &cvGen{special: vTier(), width: 1, dynSrc: vTier() > 0, canon: true}
	n := []int{1, 3}[vChoice("n", 2)]
	types := make([]cty.Type, n)
	for i := range types {
		types[i] = g.typ("t"+string(rune('0'+i)), 1)
	}
	c09Check(g, types)
}

var c09Menu = []cty.Type{
	cty.String, cty.Number, cty.DynamicPseudoType,
	cty.EmptyTuple, cty.Tuple([]cty.Type{cty.EmptyTuple}), cty.Tuple([]cty.Type{cty.String, cty.Number}),
	cty.List(cty.DynamicPseudoType), cty.List(cty.String), cty.List(cty.List(cty.Number)),
	cty.EmptyObject, cty.Object(map[string]cty.Type{"a": cty.EmptyObject}), cty.Object(map[string]cty.Type{"a": cty.String, "b": cty.Bool}),
	cty.Map(cty.DynamicPseudoType), cty.Map(cty.Number), cty.Map(cty.Map(cty.String)),
	cty.Set(cty.String), cty.Set(cty.Object(map[string]cty.Type{"b": cty.Number})),
}

// verifC09Menu: lists of 2..3 (quick) / 2..4 (thorough) types from a menu that mixes structural types with the
// collections they can be read as (tuples with lists, objects with maps), nested one level deeper, with placeholders.
func verifC09Menu() {
	g := &cvGen{special: 0, width: 2, canon: true}
	n := 2 + vChoice("n", 2+vTier())
	types := make([]cty.Type, n)
	for i := range types {
		types[i] = c09Menu[vChoice("t"+string(rune('0'+i)), len(c09Menu))]
	}
	c09Check(g, types)
}

// verifC09Deep: pairs of depth-2 types (thorough only).
func verifC09Deep() {
	g := &cvGen{special: 0, width: 1, dynSrc: true, canon: true}
	types := []cty.Type{g.typ("t0", 2), g.typ("t1", 2)}
	vAssume(cvDepth(types[0]) == 2 || cvDepth(types[1]) == 2)
	c09Check(g, types)
}
