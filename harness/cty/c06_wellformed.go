//go:build verif

package cty

// C06 — every value the library returns is well-formed for its type. The deep check (VerifWellFormed, wf.go) and the
// public-accessor twin (VerifAccessorsWork) are applied to the results of constructors on generated (also
// inconsistent) arguments, of operation methods, of refinement builders and of Walk/Transform/mark-path helpers.
// The conversion harnesses (package convert) apply the same check to conversion and unification results.

func init() {
	verifRegister("verifC06Constructors", verifC06Constructors)
	verifRegister("verifC06Ops", verifC06Ops)
	verifRegister("verifC06Traverse", verifC06Traverse)
}

func c06Check(id string, v Value) {
	r := VerifWellFormed(v)
	if r != "" {
		vLog("%s: %#v is ill-formed: %s", id, v, r)
	}
	vAssert(id+"-well-formed", r == "")
	vAssert(id+"-accessors-work", VerifAccessorsWork(v))
}

// c06Member: a member value for a constructor: any primitive kind, a small list, null / unknown / DynamicVal, marked.
func c06Member(tag string) Value {
	var v Value
	switch vChoice(tag+"-kind", 9) {
	case 0:
		v = StringVal(vStr(tag, 1, 'a', 'b'))
	case 1:
		v = NumberIntVal(vInt(tag, 0, 1))
	case 2:
		v = BoolVal(vBool(tag))
	case 3:
		v = NullVal(String)
	case 4:
		v = UnknownVal(String)
	case 5:
		v = DynamicVal
	case 6:
		v = NullVal(DynamicPseudoType)
	case 7:
		v = ListVal([]Value{StringVal(vStr(tag, 1, 'a', 'b'))})
	default:
		v = StringVal("Å") // decomposed A-ring: must come back normalized
	}
	if vChoice(tag+"-mark", 2) == 1 {
		v = v.Mark("m")
	}
	return v
}

func verifC06Constructors() {
	n := vChoice("n", 3+vTier())
	elems := make([]Value, n)
	for i := range elems {
		elems[i] = c06Member("e" + string(rune('0'+i)))
	}
	keys := []string{"a", "b", "Å"}
	m := map[string]Value{}
	for i, e := range elems {
		m[keys[i%3]] = e
	}
	var out Value
	ctor := vChoice("ctor", 9)
	p := vExpectPanic(func() {
		switch ctor {
		case 0:
			out = ListVal(elems)
		case 1:
			out = SetVal(elems)
		case 2:
			out = TupleVal(elems)
		case 3:
			out = MapVal(m)
		case 4:
			out = ObjectVal(m)
		case 5:
			out = ListValEmpty([]Type{String, DynamicPseudoType, List(Number)}[vChoice("ety", 3)])
		case 6:
			out = SetValEmpty([]Type{String, DynamicPseudoType, List(Number)}[vChoice("ety", 3)])
		case 7:
			out = MapValEmpty([]Type{String, DynamicPseudoType, List(Number)}[vChoice("ety", 3)])
		default:
			vs := NewValueSet(String)
			for _, e := range elems {
				vs.Add(e)
			}
			out = SetValFromValueSet(vs)
		}
	})
	if p {
		vReach("end-rejected")
		return
	}
	c06Check("constructed", out)
	// whether a constructor accepts is predicted by the Can* helpers
	switch ctor {
	case 0:
		vAssert("canlistval-agrees", CanListVal(elems))
	case 1:
		vAssert("cansetval-agrees", CanSetVal(elems))
	case 3:
		vAssert("canmapval-agrees", CanMapVal(m))
	}
	vReach("end-constructed")
}

func verifC06Ops() {
	a, b := c06Member("a"), c06Member("b")
	coll := []Value{
		ListVal([]Value{StringVal("x"), UnknownVal(String)}),
		MapVal(map[string]Value{"a": StringVal("x"), "b": NullVal(String)}),
		TupleVal([]Value{StringVal("x"), NumberIntVal(1)}),
		ObjectVal(map[string]Value{"a": StringVal("x"), "b": DynamicVal}),
		SetVal([]Value{StringVal("x"), StringVal("y")}),
		UnknownVal(List(String)).Refine().CollectionLengthLowerBound(1).NewValue(),
		NullVal(Map(String)),
		DynamicVal,
	}[vChoice("coll", 8)]
	if vChoice("cmark", 2) == 1 {
		coll = coll.Mark("c")
	}
	var out Value
	p := vExpectPanic(func() {
		switch vChoice("op", 14) {
		case 0:
			out = a.Equals(b)
		case 1:
			out = a.NotEqual(b)
		case 2:
			out = a.Add(b)
		case 3:
			out = a.Multiply(b)
		case 4:
			out = a.LessThan(b)
		case 5:
			out = a.And(b)
		case 6:
			out = a.Not()
		case 7:
			out = coll.Index(a)
		case 8:
			out = coll.HasIndex(a)
		case 9:
			out = coll.Length()
		case 10:
			out = coll.GetAttr("a")
		case 11:
			out = coll.HasElement(a)
		case 12:
			out = coll.Equals(coll)
		default:
			out = a.Negate()
		}
	})
	if p {
		vReach("end-panic")
		return
	}
	c06Check("operation-result", out)
	vReach("end-ok")
}

func verifC06Traverse() {
	g := &gvGen{width: 1 + vTier(), special: 1, marks: 1, sets: true}
	root := g.value("v", g.typ("t", 2))
	c06Check("generated", root.val)
	out, err := Transform(root.val, func(p Path, v Value) (Value, error) { return v, nil })
	if err == nil {
		c06Check("transformed", out)
	}
	stripped, pvm := root.val.UnmarkDeepWithPaths()
	c06Check("stripped", stripped)
	c06Check("remarked", stripped.MarkWithPaths(pvm))
	plain, _ := root.val.UnmarkDeep()
	c06Check("unknown-as-null", UnknownAsNull(plain))
	Walk(root.val, func(p Path, v Value) (bool, error) {
		c06Check("walked-member", v)
		return true, nil
	})
	vReach("end")
}
