//go:build verif

package cty

// C01 — operations on unknown values are sound approximations.
//
// Each harness runs the same operation twice: on concrete operands, and on operands in which some part was replaced
// by an unknown placeholder whose type constraint and refinements are true of the replaced part. The abstract result
// must not fail when the concrete one succeeds and must admit the concrete result.

import (
	"math"
	"math/big"
)

func init() {
	verifRegister("verifC01NumArith", verifC01NumArith)
	verifRegister("verifC01NumMul", verifC01NumMul)
	verifRegister("verifC01NumCmp", verifC01NumCmp)
	verifRegister("verifC01Bool", verifC01Bool)
	verifRegister("verifC01Str", verifC01Str)
	verifRegister("verifC01Coll", verifC01Coll)
	verifRegister("verifC01Nested", verifC01Nested)
	verifRegister("verifC01NestedSet", verifC01NestedSet)
}

// c01WeakenNum returns a placeholder for the number n (finite quarter or infinity) built through the real API.
func c01WeakenNum(tag string, n c02Num, full bool) Value {
	var hasLo, hasHi, notNull bool
	if full {
		switch vChoice(tag+"-weaken", 8) {
		case 0:
			return n.v // not weakened
		case 1:
			return UnknownVal(Number)
		case 2:
			hasLo, hasHi, notNull = true, true, true
		case 3:
			hasLo, notNull = true, true
		case 4:
			hasHi, notNull = true, true
		case 5:
			notNull = true
		case 6:
			hasLo, hasHi = true, true
		case 7:
			return DynamicVal
		}
	} else {
		switch vChoice(tag+"-weaken", 4) {
		case 0:
			return n.v
		case 1:
			return UnknownVal(Number)
		case 2:
			hasLo, hasHi, notNull = true, true, true
		case 3:
			notNull = true
		}
	}
	b := UnknownVal(Number).Refine()
	if notNull {
		b = b.NotNull()
	}
	if hasLo {
		lo := vInt(tag+"-lo", -c02NumRange*2, c02NumRange*2)
		inc := vBool(tag + "-loinc")
		// the refinement must be true of n
		loN := c02Num{kind: 0, k: lo}
		c := c02Cmp(loN, n)
		vAssume(vOr(c < 0, vAnd(c == 0, inc)))
		b = b.NumberRangeLowerBound(NumberVal(vQuarterF(lo)), inc)
	}
	if hasHi {
		hi := vInt(tag+"-hi", -c02NumRange*2, c02NumRange*2)
		inc := vBool(tag + "-hiinc")
		hiN := c02Num{kind: 0, k: hi}
		c := c02Cmp(hiN, n)
		vAssume(vOr(c > 0, vAnd(c == 0, inc)))
		b = b.NumberRangeUpperBound(NumberVal(vQuarterF(hi)), inc)
	}
	return b.NewValue()
}

// c01WeakenPlain weakens without numeric bounds (bounds equal to the concrete menu value would make products of two
// symbolic bounds; exact-value bounds are used instead).
func c01WeakenPlain(tag string, n c02Num) Value {
	switch vChoice(tag+"-weaken", 4) {
	case 1:
		return UnknownVal(Number)
	case 2:
		return UnknownVal(Number).RefineNotNull()
	case 3:
		if n.kind == 0 {
			// bounds around the concrete value
			return UnknownVal(Number).Refine().NotNull().NumberRangeLowerBound(NumberVal(vQuarterF(n.k-3)), true).NumberRangeUpperBound(NumberVal(vQuarterF(n.k+1)), false).NewValue()
		}
		return DynamicVal
	}
	return n.v
}

// c01Admits: does the abstract result s admit the concrete result r (both unmarked)?
func c01Admits(s, r Value) bool {
	if s.IsKnown() {
		if !r.IsKnown() {
			return false
		}
		if s.IsNull() || r.IsNull() {
			return s.IsNull() && r.IsNull()
		}
		if !s.Type().Equals(r.Type()) {
			return false
		}
		switch {
		case s.Type() == Number:
			return s.AsBigFloat().Cmp(r.AsBigFloat()) == 0
		case s.Type() == Bool:
			return s.True() == r.True()
		case s.Type() == String:
			return s.AsString() == r.AsString()
		}
		return s.RawEquals(r)
	}
	// unknown: type constraint
	if s.Type() != DynamicPseudoType && r.Type().TestConformance(s.Type()) != nil {
		return false
	}
	if s.Type() == DynamicPseudoType {
		return true
	}
	rng := s.Range()
	if r.IsNull() {
		return rng.CouldBeNull()
	}
	if !r.IsKnown() {
		return true
	}
	switch {
	case s.Type() == Number:
		x := r.AsBigFloat()
		lo, loInc := rng.NumberLowerBound()
		hi, hiInc := rng.NumberUpperBound()
		ok := true
		if lo.IsKnown() && !lo.AsBigFloat().IsInf() {
			c := lo.AsBigFloat().Cmp(x)
			ok = vAnd(ok, !vOr(c > 0, vAnd(c == 0, !loInc)))
		}
		if hi.IsKnown() && !hi.AsBigFloat().IsInf() {
			c := hi.AsBigFloat().Cmp(x)
			ok = vAnd(ok, !vOr(c < 0, vAnd(c == 0, !hiInc)))
		}
		return ok
	case s.Type() == String:
		p := rng.StringPrefix()
		str := r.AsString()
		if len(str) < len(p) || str[:len(p)] != p {
			return false
		}
	case s.Type().IsCollectionType():
		n := r.LengthInt()
		if n < rng.LengthLowerBound() || n > rng.LengthUpperBound() {
			return false
		}
	}
	return true
}

func verifC01NumArith() { verifC01Num([]int{0, 1, 2, 3}) }
// Multiply / Divide / Modulo: products of two symbolic numbers are nonlinear integer arithmetic for the solver, so one
// operand is symbolic and the other comes from a concrete menu (both orders); the thorough tier adds both symbolic
// over a tiny range.
var c01MulMode int

func verifC01NumMul() {
	c01MulMode = 1 + vChoice("mulmode", 2+vTier())
	if c01MulMode == 3 {
		c02NumRange = 6
	}
	verifC01Num([]int{4, 5, 6})
}
func verifC01NumCmp()   { verifC01Num([]int{7, 8, 9, 10, 11, 12}) }

func verifC01Num(ops []int) {
	var a, b c02Num
	if c01MulMode == 2 {
		a = c02MenuNumber("a")
	} else {
		a = c02Number("a", true)
	}
	op := ops[vChoice("op", len(ops))]
	unary := op <= 1
	if !unary {
		if c01MulMode == 1 {
			b = c02MenuNumber("b")
		} else {
			b = c02Number("b", true)
		}
	}
	apply := func(x, y Value) Value {
		switch op {
		case 0:
			return x.Negate()
		case 1:
			return x.Absolute()
		case 2:
			return x.Add(y)
		case 3:
			return x.Subtract(y)
		case 4:
			return x.Multiply(y)
		case 5:
			return x.Divide(y)
		case 6:
			return x.Modulo(y)
		case 7:
			return x.LessThan(y)
		case 8:
			return x.GreaterThan(y)
		case 9:
			return x.LessThanOrEqualTo(y)
		case 10:
			return x.GreaterThanOrEqualTo(y)
		case 11:
			return x.Equals(y)
		}
		return x.NotEqual(y)
	}
	if op == 6 {
		// keep Modulo inside what the number model decides: integer operands
		vAssume(a.kind != 0 || a.k%4 == 0)
		vAssume(b.kind != 0 || b.k%4 == 0)
	}
	var r Value
	if vExpectPanic(func() { r = apply(a.v, b.v) }) {
		vReach("concrete-fails")
		return // the concrete operation fails: nothing is promised
	}
	var aw, bw Value
	switch c01MulMode {
	case 1: // b concrete from the menu: weakened without symbolic bounds
		aw = c01WeakenNum("a", a, true)
		bw = c01WeakenPlain("b", b)
	case 2:
		aw = c01WeakenPlain("a", a)
		bw = c01WeakenNum("b", b, true)
	default:
		aw = c01WeakenNum("a", a, true)
		bw = b.v
		if !unary {
			bw = c01WeakenNum("b", b, vTier() == 1)
		}
	}
	var s Value
	p := vExpectPanic(func() { s = apply(aw, bw) })
	vAssert("weakened-does-not-fail", !p)
	if p {
		return
	}
	vKnown("F18-equality-with-infinity-disproved-by-unbounded-range", (op == 11 || op == 12) && (a.kind != 0 || b.kind != 0))
	vAssert("weakened-admits-concrete", c01Admits(s, r))
	if aw.IsKnown() && (unary || bw.IsKnown()) {
		vAssert("known-operands-known-result", s.IsKnown() && !s.IsNull())
	}
	vReach("end")
}

func c01WeakenBool(tag string, v bool) Value {
	switch vChoice(tag+"-weaken", 4) {
	case 0:
		return BoolVal(v)
	case 1:
		return UnknownVal(Bool)
	case 2:
		return DynamicVal
	}
	return UnknownVal(Bool).RefineNotNull()
}

func verifC01Bool() {
	x, y := vBool("x"), vBool("y")
	op := vChoice("op", 5)
	apply := func(a, b Value) Value {
		switch op {
		case 0:
			return a.Not()
		case 1:
			return a.And(b)
		case 2:
			return a.Or(b)
		case 3:
			return a.Equals(b)
		}
		return a.NotEqual(b)
	}
	r := apply(BoolVal(x), BoolVal(y))
	aw := c01WeakenBool("x", x)
	bw := BoolVal(y)
	if op != 0 {
		bw = c01WeakenBool("y", y)
	}
	var s Value
	p := vExpectPanic(func() { s = apply(aw, bw) })
	vAssert("weakened-does-not-fail", !p)
	if p {
		return
	}
	vAssert("weakened-admits-concrete", c01Admits(s, r))
	if aw.IsKnown() && bw.IsKnown() {
		vAssert("known-operands-known-result", s.IsKnown() && !s.IsNull())
	}
	vReach("end")
}

// strings: equality against a placeholder with a prefix refinement
func verifC01Str() {
	a := vStr("a", vChoice("alen", 4), 'a', 'b')
	b := vStr("b", vChoice("blen", 4), 'a', 'b')
	weaken := func(tag, s string) Value {
		switch vChoice(tag+"-weaken", 4) {
		case 0:
			return StringVal(s)
		case 1:
			return UnknownVal(String)
		case 2:
			return DynamicVal
		}
		bld := UnknownVal(String).Refine()
		if vBool(tag + "-notnull") {
			bld = bld.NotNull()
		}
		n := vChoice(tag+"-plen", len(s)+1)
		return bld.StringPrefixFull(s[:n]).NewValue()
	}
	neq := vChoice("op", 2) == 1
	apply := func(x, y Value) Value {
		if neq {
			return x.NotEqual(y)
		}
		return x.Equals(y)
	}
	r := apply(StringVal(a), StringVal(b))
	aw, bw := weaken("a", a), weaken("b", b)
	var s Value
	p := vExpectPanic(func() { s = apply(aw, bw) })
	vAssert("weakened-does-not-fail", !p)
	if p {
		return
	}
	vAssert("weakened-admits-concrete", c01Admits(s, r))
	vReach("end")
}

// collections: Length, Index, HasIndex, HasElement with the collection weakened (with length bounds) or the key weakened
func verifC01Coll() {
	n := vChoice("n", 4)
	members := make([]Value, n)
	for i := range members {
		members[i] = NumberIntVal(vInt("m", 0, 2))
	}
	kind := vChoice("kind", 3) // list, set, tuple
	var coll Value
	ety := Number
	switch kind {
	case 0:
		if n == 0 {
			coll = ListValEmpty(ety)
		} else {
			coll = ListVal(members)
		}
	case 1:
		if n == 0 {
			coll = SetValEmpty(ety)
		} else {
			coll = SetVal(members)
		}
	case 2:
		coll = TupleVal(members)
	}
	realLen := coll.LengthInt()
	weakColl := coll
	switch vChoice("coll-weaken", 4) {
	case 1:
		weakColl = UnknownVal(coll.Type())
	case 2:
		weakColl = DynamicVal
	case 3:
		if kind == 2 {
			weakColl = UnknownVal(coll.Type()).RefineNotNull()
		} else {
			lo := vInt("lenlo", 0, 5)
			hi := vInt("lenhi", 0, math.MaxInt64)
			vAssume(lo <= int64(realLen) && int64(realLen) <= hi)
			bld := UnknownVal(coll.Type()).Refine()
			if vBool("coll-notnull") {
				bld = bld.NotNull()
			}
			weakColl = bld.CollectionLengthLowerBound(int(lo)).CollectionLengthUpperBound(int(hi)).NewValue()
		}
	}
	key := vInt("key", -1, 4)
	keyV := NumberIntVal(key)
	weakKey := keyV
	switch vChoice("key-weaken", 3) {
	case 1:
		weakKey = UnknownVal(Number)
	case 2:
		weakKey = DynamicVal
	}
	op := vChoice("op", 4)
	apply := func(c, k Value) Value {
		switch op {
		case 0:
			return c.Length()
		case 1:
			return c.HasIndex(k)
		case 2:
			return c.Index(k)
		}
		return c.HasElement(k)
	}
	if (op == 1 || op == 2) && kind == 1 {
		return // sets are not indexable
	}
	if op == 3 && kind != 1 {
		return
	}
	var r Value
	if vExpectPanic(func() { r = apply(coll, keyV) }) {
		vReach("concrete-fails")
		return
	}
	var s Value
	p := vExpectPanic(func() { s = apply(weakColl, weakKey) })
	vAssert("weakened-does-not-fail", !p)
	if p {
		return
	}
	vAssert("weakened-admits-concrete", c01Admits(s, r))
	if weakColl.IsWhollyKnown() && (op == 0 || weakKey.IsKnown()) {
		vAssert("known-operands-known-result", s.IsKnown() && !s.IsNull())
	}
	vReach("end")
}

// nested parts replaced by unknowns: equality and attribute access on structures
func verifC01Nested() {
	x, y := vInt("x", 0, 2), vInt("y", 0, 2)
	u, w := vInt("u", 0, 2), vInt("w", 0, 2)
	mk := func(kind int, p, q Value) Value {
		switch kind {
		case 0:
			return ListVal([]Value{p, q})
		case 1:
			return TupleVal([]Value{p, q})
		case 2:
			return ObjectVal(map[string]Value{"a": p, "b": q})
		case 3:
			return MapVal(map[string]Value{"a": p, "b": q})
		}
		return SetVal([]Value{p, q})
	}
	kind := vChoice("kind", 4+vTier()) // sets of partly unknown members only in the thorough tier
	weak := func(tag string, k int64) Value {
		switch vChoice(tag+"-weaken", 3) {
		case 1:
			return UnknownVal(Number)
		case 2:
			lo := vInt(tag+"-lo", -1, 3)
			vAssume(lo <= k)
			return UnknownVal(Number).Refine().NotNull().NumberRangeLowerBound(NumberIntVal(lo), true).NewValue()
		}
		return NumberIntVal(k)
	}
	lhs := mk(kind, NumberIntVal(x), NumberIntVal(y))
	rhs := mk(kind, NumberIntVal(u), NumberIntVal(w))
	lhsW := mk(kind, weak("x", x), weak("y", y))
	wW := NumberIntVal(w)
	if vTier() == 1 {
		wW = weak("w", w)
	}
	rhsW := mk(kind, weak("u", u), wW)
	op := vChoice("op", 3)
	apply := func(a, b Value) Value {
		switch op {
		case 0:
			return a.Equals(b)
		case 1:
			return a.Length()
		}
		if kind == 4 {
			return a.HasElement(NumberIntVal(1))
		}
		if kind == 2 {
			return a.GetAttr("b")
		}
		if kind == 3 {
			return a.Index(StringVal("b"))
		}
		return a.Index(NumberIntVal(1))
	}
	vMapOrder(vTier() == 1)
	var r Value
	if vExpectPanic(func() { r = apply(lhs, rhs) }) {
		vReach("concrete-fails")
		return
	}
	var s Value
	p := vExpectPanic(func() { s = apply(lhsW, rhsW) })
	vMapOrder(false)
	vAssert("weakened-does-not-fail", !p)
	if p {
		return
	}
	vAssert("weakened-admits-concrete", c01Admits(s, r))
	vReach("end")
}

// unknowns nested inside the members of a set: membership and length must stay approximations
func verifC01NestedSet() {
	x, y := vInt("x", 0, 1), vInt("y", 0, 1)
	u, w := vInt("u", 0, 1), vInt("w", 0, 1)
	q, r0 := vInt("q", 0, 1), vInt("r", 0, 1)
	shape := vChoice("shape", 3)
	mk := func(p, q Value) Value {
		switch shape {
		case 0:
			return ObjectVal(map[string]Value{"a": p, "b": q})
		case 1:
			return TupleVal([]Value{p, q})
		}
		return ListVal([]Value{p, q})
	}
	weak := func(tag string, k int64) Value {
		if vChoice(tag+"-weaken", 2) == 1 {
			return UnknownVal(Number)
		}
		return NumberIntVal(k)
	}
	n := 1 + vChoice("n", 2)
	conc := []Value{mk(NumberIntVal(x), NumberIntVal(y))}
	weakd := []Value{mk(NumberIntVal(x), weak("y", y))}
	if n == 2 {
		conc = append(conc, mk(NumberIntVal(u), NumberIntVal(w)))
		weakd = append(weakd, mk(weak("u", u), NumberIntVal(w)))
	}
	probe := mk(NumberIntVal(q), NumberIntVal(r0))
	probeW := mk(NumberIntVal(q), weak("r", r0))
	op := vChoice("op", 5)
	apply := func(members []Value, weakened bool) Value {
		s := SetVal(members)
		switch op {
		case 0:
			return s.HasElement(probe)
		case 1:
			return s.Length()
		case 2:
			// equality with the wholly known set of the same members, either way round
			return s.Equals(SetVal(conc))
		case 3:
			return SetVal(conc).NotEqual(s)
		}
		// the set is wholly known, the element sought is partly unknown
		if weakened {
			return SetVal(conc).HasElement(probeW)
		}
		return SetVal(conc).HasElement(probe)
	}
	var r Value
	if vExpectPanic(func() { r = apply(conc, false) }) {
		vReach("concrete-fails")
		return
	}
	var s Value
	p := vExpectPanic(func() { s = apply(weakd, true) })
	vAssert("weakened-does-not-fail", !p)
	if p {
		return
	}
	vAssert("weakened-admits-concrete", c01Admits(s, r))
	vReach("end")
}

var _ = big.NewFloat
