//go:build verif

package cty

// C05 — refinements only narrow and are faithful.
//
// Each harness applies a bounded history of RefinementBuilder calls with symbolic arguments through the real API and
// keeps an independent specification: the plain list of constraints stated so far. The refined value's reported range
// is compared with that specification extensionally, on a symbolic candidate value.

import (
	"math"
	"math/big"
)

func init() {
	verifRegister("verifC05Number", verifC05Number)
	verifRegister("verifC05Length", verifC05Length)
	verifRegister("verifC05Prefix", verifC05Prefix)
	verifRegister("verifC05Null", verifC05Null)
}

// quarter builds the exact number k/4 (precision 64, like NumberIntVal) as a *big.Float.
func vQuarterF(k int64) *big.Float {
	f := new(big.Float).SetInt64(k)
	return f.Quo(f, big.NewFloat(4))
}

const c05NumRange = 1 << 40

type c05Bound struct {
	kind int // 0 finite, 1 +inf, 2 -inf
	k    int64
	inc  bool
}

// cmpBoundCand compares bound b with a finite candidate k/4: -1, 0, +1
func (b c05Bound) cmpFinite(k int64) int {
	switch b.kind {
	case 1:
		return 1
	case 2:
		return -1
	}
	if b.k < k {
		return -1
	}
	if b.k > k {
		return 1
	}
	return 0
}

func c05CmpBounds(a, b c05Bound) int {
	av, bv := 0, 0
	if a.kind == 1 {
		av = 1
	} else if a.kind == 2 {
		av = -1
	}
	if b.kind == 1 {
		bv = 1
	} else if b.kind == 2 {
		bv = -1
	}
	if av != bv || av != 0 {
		if av < bv {
			return -1
		}
		if av > bv {
			return 1
		}
		return 0
	}
	if a.k < b.k {
		return -1
	}
	if a.k > b.k {
		return 1
	}
	return 0
}

type c05NumSpec struct {
	los, his []c05Bound
	null     int // 0 unknown, 1 definitely null, 2 definitely not null
}

func (s *c05NumSpec) empty() bool {
	for _, lo := range s.los {
		for _, hi := range s.his {
			c := c05CmpBounds(lo, hi)
			if c > 0 || (c == 0 && !(lo.inc && hi.inc)) {
				return true
			}
		}
	}
	return false
}

// admitsFinite: does the conjunction of the stated numeric constraints hold of the finite number k/4?
func (s *c05NumSpec) boundsAdmit(k int64) bool {
	ok := true
	for _, lo := range s.los {
		c := lo.cmpFinite(k)
		if c > 0 || (c == 0 && !lo.inc) {
			ok = false
		}
	}
	for _, hi := range s.his {
		c := hi.cmpFinite(k)
		if c < 0 || (c == 0 && !hi.inc) {
			ok = false
		}
	}
	return ok
}

func c05BoundValue(tag string) (Value, c05Bound, bool) {
	switch vChoice(tag+"-kind", 4) {
	case 0:
		k := vInt(tag, -c05NumRange, c05NumRange)
		return NumberVal(vQuarterF(k)), c05Bound{kind: 0, k: k}, true
	case 1:
		return PositiveInfinity, c05Bound{kind: 1}, true
	case 2:
		return NegativeInfinity, c05Bound{kind: 2}, true
	}
	return UnknownVal(Number), c05Bound{}, false
}

// reported range of a Number value read through the ValueRange accessors only
func c05ReportedAdmitsFinite(r Value, k int64) bool {
	if r.IsKnown() && r.IsNull() {
		return false
	}
	rng := r.Range()
	x := vQuarterF(k)
	lo, loInc := rng.NumberLowerBound()
	hi, hiInc := rng.NumberUpperBound()
	ok := true
	if lo.IsKnown() {
		c := lo.AsBigFloat().Cmp(x)
		if c > 0 || (c == 0 && !loInc && !lo.AsBigFloat().IsInf()) {
			ok = false
		}
	}
	if hi.IsKnown() {
		c := hi.AsBigFloat().Cmp(x)
		if c < 0 || (c == 0 && !hiInc && !hi.AsBigFloat().IsInf()) {
			ok = false
		}
	}
	return ok
}

func c05ReportedAdmitsNull(r Value) bool {
	if r.IsKnown() {
		return r.IsNull()
	}
	return r.Range().CouldBeNull()
}

func verifC05Number() {
	var spec c05NumSpec
	base := UnknownVal(Number)
	baseKnown := false
	var baseK int64
	if vChoice("base", 2) == 1 {
		baseK = vInt("basek", -c05NumRange, c05NumRange)
		base = NumberVal(vQuarterF(baseK))
		baseKnown = true
		spec.null = 2
	}
	b := base.Refine()
	steps := 2 + vTier()
	for step := 0; step < steps; step++ {
		op := vChoice("op", 6)
		if op == 5 {
			break
		}
		expectPanic := false
		var panicked bool
		switch op {
		case 0: // NotNull
			expectPanic = spec.null == 1
			panicked = vExpectPanic(func() { b = b.NotNull() })
			if spec.null == 0 {
				spec.null = 2
			}
		case 1: // Null
			expectPanic = spec.null == 2
			panicked = vExpectPanic(func() { b = b.Null() })
			if spec.null == 0 {
				spec.null = 1
			}
		case 2: // lower bound
			v, bd, known := c05BoundValue("lo")
			bd.inc = true
			if bd.kind == 0 {
				bd.inc = vBool("loinc")
			}
			if known {
				spec.los = append(spec.los, bd)
			}
			expectPanic = spec.empty() || (baseKnown && !spec.boundsAdmit(baseK))
			vKnown("F8-exclusive-equal-bounds", c05OnlyExclusiveEqual(&spec, baseKnown, baseK))
			panicked = vExpectPanic(func() { b = b.NumberRangeLowerBound(v, bd.inc) })
		case 3: // upper bound
			v, bd, known := c05BoundValue("hi")
			bd.inc = true
			if bd.kind == 0 {
				bd.inc = vBool("hiinc")
			}
			if known {
				spec.his = append(spec.his, bd)
			}
			expectPanic = spec.empty() || (baseKnown && !spec.boundsAdmit(baseK))
			vKnown("F8-exclusive-equal-bounds", c05OnlyExclusiveEqual(&spec, baseKnown, baseK))
			panicked = vExpectPanic(func() { b = b.NumberRangeUpperBound(v, bd.inc) })
		case 4: // rebuild: finish and refine the result again
			r := b.NewValue()
			b = r.Refine()
			continue
		}
		vAssert("panic-iff-contradiction", panicked == expectPanic)
		if panicked || expectPanic {
			vReach("rejected")
			return
		}
	}
	r := b.NewValue()
	vAssert("type-unchanged", r.Type() == Number)
	// candidate: a finite number or null
	if vChoice("cand", 2) == 0 {
		k := vInt("x", -c05NumRange-8, c05NumRange+8)
		want := spec.null != 1 && spec.boundsAdmit(k)
		if baseKnown {
			want = k == baseK
		}
		vAssert("range-extensional", c05ReportedAdmitsFinite(r, k) == want)
	} else {
		want := spec.null != 2
		vAssert("null-extensional", c05ReportedAdmitsNull(r) == want)
	}
	if r.IsKnown() && !baseKnown {
		// known only if the constraints admit exactly one value
		single := spec.null == 1
		if spec.null == 2 {
			for _, lo := range spec.los {
				for _, hi := range spec.his {
					if lo.inc && hi.inc && c05CmpBounds(lo, hi) == 0 {
						single = true
					}
				}
			}
		}
		vAssert("known-only-if-singleton", single)
	}
	vReach("end")
}

// c05OnlyExclusiveEqual characterises known finding F8: the only reason the stated bounds are contradictory is a
// lower and an upper bound that are equal with both marked exclusive, or the known value sits on such a bound.
func c05OnlyExclusiveEqual(s *c05NumSpec, baseKnown bool, baseK int64) bool {
	if baseKnown && !s.boundsAdmit(baseK) {
		return false
	}
	found := false
	for _, lo := range s.los {
		for _, hi := range s.his {
			c := c05CmpBounds(lo, hi)
			if c > 0 {
				return false
			}
			if c == 0 && !(lo.inc && hi.inc) {
				if !lo.inc && !hi.inc {
					found = true
				} else {
					return false
				}
			}
		}
	}
	return found
}

// ---------- collection length refinements ----------

func verifC05Length() {
	ty := List(String)
	switch vChoice("kind", 3) {
	case 1:
		ty = Set(String)
	case 2:
		ty = Map(String)
	}
	base := UnknownVal(ty)
	b := base.Refine()
	lo, hi := int64(0), int64(math.MaxInt)
	null := 0
	steps := 2 + vTier()
	for step := 0; step < steps; step++ {
		op := vChoice("op", 6)
		if op == 5 {
			break
		}
		expectPanic := false
		var panicked bool
		switch op {
		case 0:
			expectPanic = null == 1
			panicked = vExpectPanic(func() { b = b.NotNull() })
			if null == 0 {
				null = 2
			}
		case 1:
			n := vInt("min", math.MinInt64, math.MaxInt64)
			if n > lo {
				lo = n
			}
			expectPanic = lo > hi
			panicked = vExpectPanic(func() { b = b.CollectionLengthLowerBound(int(n)) })
		case 2:
			n := vInt("max", math.MinInt64, math.MaxInt64)
			if n < hi {
				hi = n
			}
			expectPanic = lo > hi
			panicked = vExpectPanic(func() { b = b.CollectionLengthUpperBound(int(n)) })
		case 3:
			n := vInt("len", math.MinInt64, math.MaxInt64)
			if n > lo {
				lo = n
			}
			if n < hi {
				hi = n
			}
			expectPanic = lo > hi
			panicked = vExpectPanic(func() { b = b.CollectionLength(int(n)) })
		case 4:
			r := b.NewValue()
			if !r.IsKnown() {
				b = r.Refine()
			}
			continue
		}
		vAssert("panic-iff-contradiction", panicked == expectPanic)
		if panicked || expectPanic {
			vReach("rejected")
			return
		}
	}
	r := b.NewValue()
	vAssert("type-unchanged", r.Type().Equals(ty))
	n := vInt("candlen", 0, math.MaxInt64)
	want := lo <= n && n <= hi
	var got bool
	if r.IsKnown() {
		got = int64(r.LengthInt()) == n
		// a known result must mean the length was pinned
		vAssert("known-only-if-pinned", lo == hi)
	} else {
		rng := r.Range()
		got = int64(rng.LengthLowerBound()) <= n && n <= int64(rng.LengthUpperBound())
	}
	vAssert("length-extensional", got == want)
	vAssert("null-extensional", c05ReportedAdmitsNull(r) == (null != 2))
	vReach("end")
}

// ---------- string prefix refinements ----------

func c05HasPrefix(s, p string) bool { return len(s) >= len(p) && s[:len(p)] == p }

func verifC05Prefix() {
	base := UnknownVal(String)
	baseKnown := false
	var baseS string
	if vChoice("base", 2) == 1 {
		baseS = vStr("bases", vChoice("baselen", 4), 'a', 'b')
		base = StringVal(baseS)
		baseKnown = true
	}
	b := base.Refine()
	var prefixes []string
	steps := 2 + vTier()
	for step := 0; step < steps; step++ {
		if vChoice("more", 2) == 0 {
			break
		}
		p := vStr("p", vChoice("plen", 4), 'a', 'b')
		// contradictory: neither extends the other, or the known value does not start with it
		contra := false
		for _, q := range prefixes {
			if !c05HasPrefix(p, q) && !c05HasPrefix(q, p) {
				contra = true
			}
		}
		if baseKnown && !c05HasPrefix(baseS, p) {
			contra = true
		}
		vKnown("F9-prefix-longer-than-known-value", baseKnown && len(p) > len(baseS) && c05HasPrefix(p, baseS))
		panicked := vExpectPanic(func() { b = b.StringPrefixFull(p) })
		vAssert("panic-iff-contradiction", panicked == contra)
		if panicked || contra {
			vReach("rejected")
			return
		}
		prefixes = append(prefixes, p)
	}
	r := b.NewValue()
	vAssert("type-unchanged", r.Type() == String)
	x := vStr("x", vChoice("xlen", 4), 'a', 'b')
	want := true
	for _, q := range prefixes {
		if !c05HasPrefix(x, q) {
			want = false
		}
	}
	if baseKnown {
		want = x == baseS
		vAssert("known-stays-known", r.IsKnown() && r.AsString() == baseS)
	} else {
		got := c05HasPrefix(x, r.Range().StringPrefix())
		vAssert("prefix-extensional", got == want)
	}
	vReach("end")
}

// ---------- nullness on every kind of type, and the dynamic value ----------

func verifC05Null() {
	var ty Type
	switch vChoice("ty", 7) {
	case 0:
		ty = Bool
	case 1:
		ty = String
	case 2:
		ty = Number
	case 3:
		ty = List(Bool)
	case 4:
		ty = EmptyObject
	case 5:
		ty = EmptyTuple
	case 6:
		ty = DynamicPseudoType
	}
	base := UnknownVal(ty)
	baseKind := vChoice("base", 3) // unknown, known null, (for Bool) known value
	switch baseKind {
	case 1:
		base = NullVal(ty)
	case 2:
		if ty != Bool {
			return
		}
		base = BoolVal(vBool("bv"))
	}
	null := 0
	if baseKind == 1 {
		null = 1
	} else if baseKind == 2 {
		null = 2
	}
	b := base.Refine()
	for step := 0; step < 2; step++ {
		op := vChoice("op", 3)
		if op == 2 {
			break
		}
		isDyn := ty == DynamicPseudoType && baseKind == 0
		var expectPanic, panicked bool
		if op == 0 {
			expectPanic = !isDyn && null == 1
			panicked = vExpectPanic(func() { b = b.NotNull() })
			if null == 0 {
				null = 2
			}
		} else {
			expectPanic = !isDyn && null == 2
			panicked = vExpectPanic(func() { b = b.Null() })
			if null == 0 {
				null = 1
			}
		}
		vAssert("panic-iff-contradiction", panicked == expectPanic)
		if panicked || expectPanic {
			vReach("rejected")
			return
		}
	}
	r := b.NewValue()
	vAssert("type-unchanged", r.Type().Equals(ty))
	if ty == DynamicPseudoType && baseKind == 0 {
		vAssert("dynamic-unchanged", r == DynamicVal)
		vReach("end-dynamic")
		return
	}
	vAssert("null-extensional", c05ReportedAdmitsNull(r) == (null != 2))
	if r.IsKnown() && baseKind == 0 {
		vAssert("known-only-if-null", null == 1 && r.IsNull())
	}
	if !r.IsKnown() {
		vAssert("not-null-reported", r.Range().DefinitelyNotNull() == (null == 2))
	}
	vReach("end")
}
