//go:build verif

package cty

// C02 — core operations compute the documented result on wholly known values.

import (
	"math/big"
)

func init() {
	verifRegister("verifC02Arith", verifC02Arith)
	verifRegister("verifC02Modulo", verifC02Modulo)
	verifRegister("verifC02Logic", verifC02Logic)
	verifRegister("verifC02Index", verifC02Index)
	verifRegister("verifC02MapObject", verifC02MapObject)
	verifRegister("verifC02Set", verifC02Set)
	verifRegister("verifC02SetColliding", verifC02SetColliding)
}

// verifC02SetColliding: sets whose distinct members share one hash bucket (numbers that agree in their first ten
// significant digits hash alike; lists of such numbers too): length, membership and iteration count every member.
func verifC02SetColliding() {
	n := 1 + vChoice("n", 3)
	wrap := vChoice("wrap", 2) == 1
	ks := make([]int64, n)
	members := make([]Value, n)
	for i := range members {
		ks[i] = int64(vChoice("m", 3))
		var v Value
		switch ks[i] {
		case 0:
			v = NumberIntVal(12345678901)
		case 1:
			v = NumberIntVal(12345678902)
		default:
			v = NumberIntVal(12345678903)
		}
		if wrap {
			v = ListVal([]Value{v})
		}
		members[i] = v
	}
	s := SetVal(members)
	distinct := 0
	for i := 0; i < n; i++ {
		dup := false
		for j := 0; j < i; j++ {
			if ks[j] == ks[i] {
				dup = true
			}
		}
		if !dup {
			distinct++
		}
	}
	vAssert("colliding-set-length", s.LengthInt() == distinct && c02IsNum(s.Length(), int64(distinct), 1))
	vAssert("colliding-set-slice", len(s.AsValueSlice()) == distinct)
	for i := range members {
		vAssert("colliding-set-has-member", c02IsBool(s.HasElement(members[i]), true))
	}
	it := 0
	for e := s.ElementIterator(); e.Next(); {
		it++
	}
	vAssert("colliding-set-iterates-every-member", it == distinct)
	vReach("end")
}

const c02Range = 1 << 30

// c02NumRange is the numerator range used by c02Number; harnesses whose solver queries are nonlinear
// (products of two symbolic numbers) lower it.
var c02NumRange int64 = c02Range

type c02Num struct {
	v    Value
	kind int // 0 finite k/4, 1 +inf, 2 -inf
	k    int64
}

func c02Number(tag string, allowInf bool) c02Num {
	n := 1
	if allowInf {
		n = 3
	}
	switch vChoice(tag+"-kind", n) {
	case 1:
		return c02Num{PositiveInfinity, 1, 0}
	case 2:
		return c02Num{NegativeInfinity, 2, 0}
	}
	k := vInt(tag, -c02NumRange, c02NumRange)
	return c02Num{NumberVal(vQuarterF(k)), 0, k}
}

// c02MenuNumber picks a concrete number from a small menu (finite quarters of either sign, zero, infinities).
func c02MenuNumber(tag string) c02Num {
	ks := []int64{-8, -1, 0, 1, 12}
	n := vChoice(tag+"-menu", len(ks)+2)
	if n == len(ks) {
		return c02Num{PositiveInfinity, 1, 0}
	}
	if n == len(ks)+1 {
		return c02Num{NegativeInfinity, 2, 0}
	}
	return c02Num{NumberVal(vQuarterF(ks[n])), 0, ks[n]}
}

// sign of the extended number: -1, 0, 1
func (n c02Num) sign() int {
	switch n.kind {
	case 1:
		return 1
	case 2:
		return -1
	}
	return int(vIte(n.k < 0, -1, vIte(n.k > 0, 1, 0)))
}

// c02Cmp orders two extended numbers: negative, zero or positive (branch-free on the symbolic parts).
func c02Cmp(a, b c02Num) int64 {
	av, bv := int64(0), int64(0)
	if a.kind == 1 {
		av = 1
	} else if a.kind == 2 {
		av = -1
	}
	if b.kind == 1 {
		bv = 1
	} else if b.kind == 2 {
		bv = -1
	}
	if av != 0 || bv != 0 {
		return av - bv
	}
	return vIte(a.k < b.k, -1, vIte(a.k > b.k, 1, 0))
}

// c02IsNum: r is a known non-null number equal to num/den (den a power of two)
func c02IsNum(r Value, num, den int64) bool {
	if r.Type() != Number || !r.IsKnown() || r.IsNull() {
		return false
	}
	want := new(big.Float).SetPrec(200).SetInt64(num)
	want.Quo(want, new(big.Float).SetInt64(den))
	return r.AsBigFloat().Cmp(want) == 0
}

func c02IsInf(r Value, sign int) bool {
	if r.Type() != Number || !r.IsKnown() || r.IsNull() {
		return false
	}
	f := r.AsBigFloat()
	return f.IsInf() && f.Sign() == sign
}

func c02IsBool(r Value, want bool) bool {
	if r.Type() != Bool || !r.IsKnown() || r.IsNull() {
		return false
	}
	return r.True() == want
}

func verifC02Arith() {
	a := c02Number("a", true)
	op := vChoice("op", 11)
	if op <= 1 { // unary
		var r Value
		p := vExpectPanic(func() {
			if op == 0 {
				r = a.v.Negate()
			} else {
				r = a.v.Absolute()
			}
		})
		vAssert("unary-no-panic", !p)
		if p {
			return
		}
		if a.kind == 0 {
			want := -a.k
			if op == 1 && a.k >= 0 {
				want = a.k
			}
			vAssert("unary-value", c02IsNum(r, want, 4))
		} else {
			s := -a.sign()
			if op == 1 {
				s = 1
			}
			vAssert("unary-inf", c02IsInf(r, s))
		}
		vReach("end-unary")
		return
	}
	b := c02Number("b", true)
	var r Value
	p := vExpectPanic(func() {
		switch op {
		case 2:
			r = a.v.Add(b.v)
		case 3:
			r = a.v.Subtract(b.v)
		case 4:
			r = a.v.Multiply(b.v)
		case 5:
			r = a.v.Divide(b.v)
		case 6:
			r = a.v.LessThan(b.v)
		case 7:
			r = a.v.GreaterThan(b.v)
		case 8:
			r = a.v.LessThanOrEqualTo(b.v)
		case 9:
			r = a.v.GreaterThanOrEqualTo(b.v)
		case 10:
			r = a.v.Equals(b.v)
		}
	})
	c := c02Cmp(a, b)
	switch op {
	case 2, 3:
		bs := b.sign()
		if op == 3 {
			bs = -bs
		}
		if a.kind != 0 && b.kind != 0 && a.sign() != bs {
			vAssert("inf-minus-inf-panics", p)
			return
		}
		vAssert("addsub-no-panic", !p)
		if p {
			return
		}
		switch {
		case a.kind != 0:
			vAssert("addsub-inf", c02IsInf(r, a.sign()))
		case b.kind != 0:
			vAssert("addsub-inf", c02IsInf(r, bs))
		case op == 2:
			vAssert("add-value", c02IsNum(r, a.k+b.k, 4))
		default:
			vAssert("sub-value", c02IsNum(r, a.k-b.k, 4))
		}
	case 4:
		if (a.kind != 0 && b.sign() == 0) || (b.kind != 0 && a.sign() == 0) {
			vAssert("zero-times-inf-panics", p)
			return
		}
		vAssert("mul-no-panic", !p)
		if p {
			return
		}
		if a.kind != 0 || b.kind != 0 {
			vAssert("mul-inf", c02IsInf(r, a.sign()*b.sign()))
		} else {
			vAssert("mul-value", c02IsNum(r, a.k*b.k, 16))
		}
	case 5:
		if (a.kind != 0 && b.kind != 0) || (a.sign() == 0 && b.sign() == 0) {
			vAssert("undefined-quotient-panics", p)
			return
		}
		vAssert("div-no-panic", !p)
		if p {
			return
		}
		switch {
		case b.sign() == 0:
			vAssert("div-by-zero-is-signed-infinity", c02IsInf(r, a.sign()))
		case a.kind != 0:
			vAssert("inf-div-finite", c02IsInf(r, a.sign()*b.sign()))
		case b.kind != 0:
			vAssert("finite-div-inf-is-zero", c02IsNum(r, 0, 1))
		default:
			// q*b == a in exact arithmetic
			ok := r.Type() == Number && r.IsKnown() && !r.IsNull()
			vAssert("div-type", ok)
			if ok {
				q := new(big.Float).SetPrec(200).Mul(r.AsBigFloat(), vQuarterF(b.k))
				vAssert("div-value", q.Cmp(vQuarterF(a.k)) == 0)
			}
		}
	case 6:
		vAssert("cmp-no-panic", !p)
		vAssert("lt", p || c02IsBool(r, c < 0))
	case 7:
		vAssert("cmp-no-panic", !p)
		vAssert("gt", p || c02IsBool(r, c > 0))
	case 8:
		vAssert("cmp-no-panic", !p)
		vAssert("le", p || c02IsBool(r, c <= 0))
	case 9:
		vAssert("cmp-no-panic", !p)
		vAssert("ge", p || c02IsBool(r, c >= 0))
	case 10:
		vAssert("cmp-no-panic", !p)
		vAssert("eq", p || c02IsBool(r, c == 0))
	}
	vReach("end")
}

// Modulo on integers: remainder of truncated division by a non-zero divisor.
func verifC02Modulo() {
	lim := int64(1 << 20)
	a := vInt("a", -lim, lim)
	av := NumberIntVal(a)
	b := vInt("b", -lim, lim)
	vAssume(b != 0)
	var r Value
	p := vExpectPanic(func() { r = av.Modulo(NumberIntVal(b)) })
	vAssert("mod-no-panic", !p)
	if p {
		return
	}
	vAssert("mod-value", c02IsNum(r, a%b, 1))
	vReach("end")
}

func verifC02Logic() {
	x, y := vBool("x"), vBool("y")
	xv, yv := BoolVal(x), BoolVal(y)
	vAssert("not", c02IsBool(xv.Not(), !x))
	vAssert("and", c02IsBool(xv.And(yv), x && y))
	vAssert("or", c02IsBool(xv.Or(yv), x || y))
	vAssert("eq", c02IsBool(xv.Equals(yv), x == y))
	vAssert("neq", c02IsBool(xv.NotEqual(yv), x != y))
	p := vExpectPanic(func() { xv.And(StringVal("t")) })
	vAssert("and-wrong-type-panics", p)
	p = vExpectPanic(func() { StringVal("t").Not() })
	vAssert("not-wrong-type-panics", p)
	p = vExpectPanic(func() { NumberIntVal(1).Add(xv) })
	vAssert("add-wrong-type-panics", p)
	p = vExpectPanic(func() { xv.LessThan(NumberIntVal(1)) })
	vAssert("lt-wrong-type-panics", p)
	vReach("end")
}

// Index / HasIndex / Length on lists and tuples with an arbitrary numeric key.
func verifC02Index() {
	n := vChoice("n", 4)
	tuple := vChoice("tuple", 2) == 1
	members := make([]Value, n)
	ks := make([]int64, n)
	for i := range members {
		ks[i] = vInt("m", -1000, 1000)
		members[i] = NumberIntVal(ks[i])
	}
	var coll Value
	if tuple {
		coll = TupleVal(members)
	} else if n == 0 {
		coll = ListValEmpty(Number)
	} else {
		coll = ListVal(members)
	}
	vAssert("length", c02IsNum(coll.Length(), int64(n), 1) && coll.LengthInt() == n)
	key := c02Number("key", true)
	valid := key.kind == 0 && key.k%4 == 0 && key.k >= 0 && key.k/4 < int64(n)
	var has Value
	p := vExpectPanic(func() { has = coll.HasIndex(key.v) })
	vAssert("hasindex-no-panic", !p)
	if !p {
		vAssert("hasindex", c02IsBool(has, valid))
	}
	var got Value
	p = vExpectPanic(func() { got = coll.Index(key.v) })
	vAssert("index-succeeds-iff-hasindex", p == !valid)
	if !p && valid {
		idx := key.k / 4
		vAssert("index-member", c02IsNum(got, ks[idx], 1))
	}
	// wrong key type
	vAssert("hasindex-wrong-key-type", c02IsBool(coll.HasIndex(StringVal("0")), false))
	p = vExpectPanic(func() { coll.Index(StringVal("0")) })
	vAssert("index-wrong-key-type-panics", p)
	vReach("end")
}

// Maps and objects with symbolic keys / looked-up names.
func verifC02MapObject() {
	n := vChoice("n", 3) // 0..2 entries
	keys := make([]string, n)
	vals := map[string]Value{}
	for i := 0; i < n; i++ {
		keys[i] = vStr("k", 1, 'a', 'c')
		vals[keys[i]] = NumberIntVal(int64(i + 1)) // later entries overwrite earlier equal keys
	}
	distinct := len(vals)
	want := vStr("q", 1, 'a', 'd')
	present := false
	var wantVal int64
	for i := 0; i < n; i++ {
		if keys[i] == want {
			present = true
			wantVal = int64(i + 1)
		}
	}
	if vChoice("object", 2) == 0 {
		var m Value
		if n == 0 {
			m = MapValEmpty(Number)
		} else {
			m = MapVal(vals)
		}
		vAssert("map-length", m.LengthInt() == distinct && c02IsNum(m.Length(), int64(distinct), 1))
		vAssert("map-hasindex", c02IsBool(m.HasIndex(StringVal(want)), present))
		var got Value
		p := vExpectPanic(func() { got = m.Index(StringVal(want)) })
		vKnown("F12-map-index-missing-key-yields-null", !present && !p)
		vAssert("map-index-succeeds-iff-hasindex", p == !present)
		if !p && present {
			vAssert("map-index-member", c02IsNum(got, wantVal, 1))
		}
		p = vExpectPanic(func() { m.Index(NumberIntVal(0)) })
		vAssert("map-index-wrong-key-type-panics", p)
	} else {
		o := ObjectVal(vals)
		vAssert("object-hasattr", o.Type().HasAttribute(want) == present)
		var got Value
		p := vExpectPanic(func() { got = o.GetAttr(want) })
		vAssert("getattr-succeeds-iff-present", p == !present)
		if !p && present {
			vAssert("getattr-member", c02IsNum(got, wantVal, 1))
		}
		vAssert("object-length", o.LengthInt() == distinct)
	}
	vReach("end")
}

// Sets: length is the number of distinct members, HasElement is membership.
func verifC02Set() {
	n := 1 + vChoice("n", 3)
	ks := make([]int64, n)
	members := make([]Value, n)
	for i := range members {
		ks[i] = vInt("m", 0, 3)
		members[i] = NumberIntVal(ks[i])
	}
	s := SetVal(members)
	distinct := 0
	for i := 0; i < n; i++ {
		dup := false
		for j := 0; j < i; j++ {
			if ks[j] == ks[i] {
				dup = true
			}
		}
		if !dup {
			distinct++
		}
	}
	vAssert("set-length", s.LengthInt() == distinct && c02IsNum(s.Length(), int64(distinct), 1))
	q := vInt("q", 0, 4)
	member := false
	for i := 0; i < n; i++ {
		if ks[i] == q {
			member = true
		}
	}
	vAssert("haselement", c02IsBool(s.HasElement(NumberIntVal(q)), member))
	// a value of another type cannot be a member: the documented answer is False (not a panic)
	vAssert("haselement-wrong-type-is-false", c02IsBool(s.HasElement(StringVal("x")), false))
	vReach("end")
}
