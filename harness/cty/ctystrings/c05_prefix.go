//go:build verif

package ctystrings

// C05 (prefix safety) — a prefix recorded through SafeKnownPrefix is a byte prefix of the normalized form of every
// string that extends the given prefix. Unicode normalization and grapheme segmentation are table-driven library code
// that the engine runs natively on concrete strings, so this part of the property is explored over a concrete
// alphabet chosen by structural forks (not decided by the solver): every prefix of up to 2 (quick) / 3 (thorough)
// symbols followed by every continuation of 1 (quick) / up to 2 (thorough) symbols.

import (
	"strings"
)

func init() {
	verifRegister("verifC05SafePrefix", verifC05SafePrefix)
}

var c05Alphabet = []string{
	"a", "=", "<", ">", " ", "-", ".", "/", "\r", "\n", "e",
	"\u0301",     // combining acute accent
	"\u0338",     // combining long solidus overlay (composes with = < >)
	"\u0308",     // combining diaeresis
	"\u1100",     // hangul choseong kiyeok (L)
	"\u1161",     // hangul jungseong a (V)
	"\u11a8",     // hangul jongseong kiyeok (T)
	"\uac00",     // hangul syllable ga (LV)
	"\U0001F44D", // thumbs up
	"\U0001F3FB", // emoji modifier fitzpatrick 1-2
	"\u200d",     // zero width joiner
	"\U0001F1E6", // regional indicator A
	"\U0001F1FA", // regional indicator U
	"\u00e9",     // precomposed e-acute
}

func verifC05SafePrefix() {
	np := 1 + vChoice("plen", 2+vTier())
	prefix := ""
	for i := 0; i < np; i++ {
		prefix += c05Alphabet[vChoice("p", len(c05Alphabet))]
	}
	nc := 1 + vChoice("clen", 1+vTier())
	cont := ""
	for i := 0; i < nc; i++ {
		cont += c05Alphabet[vChoice("c", len(c05Alphabet))]
	}
	var safe string
	vAssert("safe-prefix-no-panic", !vExpectPanic(func() { safe = SafeKnownPrefix(prefix) }))
	full := Normalize(prefix + cont)
	vLog("prefix=%q cont=%q safe=%q full=%q", prefix, cont, safe, full)
	vAssert("safe-prefix-is-byte-prefix-of-every-normalized-extension", strings.HasPrefix(full, safe))
	vAssert("safe-prefix-is-byte-prefix-of-the-normalized-prefix", strings.HasPrefix(Normalize(prefix), safe))
	vAssert("safe-prefix-is-normalized", Normalize(safe) == safe)
	vAssert("safe-prefix-idempotent", SafeKnownPrefix(safe) == safe || strings.HasPrefix(safe, SafeKnownPrefix(safe)))
	vReach("end")
}
