#!/bin/sh
# usage: tools/seedsweep.sh [seed ids...]   (default: every seeded/<id> whose meta.json names a catching harness)
# Re-runs, for each seeded change, the quick check of its property restricted to the harness recorded as catching it
# (scratch worktree, /repo untouched) and prints one line per seed: CAUGHT / MISSED / n-a.
cd "$(dirname "$0")/.."
ids="$@"
[ -n "$ids" ] || ids=$(ls seeded)
for id in $ids; do
  m=seeded/$id/meta.json
  [ -f "$m" ] || continue
  prop=$(python3 -c "import json;print(json.load(open('$m'))['property'])")
  h=$(python3 -c "
import json,re
c=json.load(open('$m')).get('caught_by','')
r=re.search(r'verif[A-Za-z0-9]+',c)
print(r.group(0) if r else '')")
  if [ -z "$h" ]; then echo "$id n-a (not claimed to be caught)"; continue; fi
  # the harness may belong to another property's check (e.g. a C10 harness registered under C04)
  p=$(python3 -c "
import json
pr=json.load(open('props.json'))
pref='$prop'
cands=[k for k,v in pr.items() if any(x['func']=='$h' for x in v['harnesses'])]
print(pref if pref in cands else (cands[0] if cands else pref))")
  out=$(TRYMUT_LINES=0 tools/trymut.sh seeded/$id/patch.diff $p --tier quick -only $h 2>&1 | head -1)
  case "$out" in
    *"exit=1 violations="*) echo "$id CAUGHT by $p/$h ($out)";;
    *) echo "$id MISSED by $p/$h ($out)";;
  esac
done
