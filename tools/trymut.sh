#!/bin/sh
# usage: tools/trymut.sh <patch.diff> <PROPERTY> [check args]
# Development aid: applies a mutation to a scratch worktree of /repo (outside /repo and /verif), runs a check against
# it with evidence redirected to a scratch directory, and removes both afterwards. /repo itself is not touched.
patch=$(realpath "$1"); prop=$2; shift 2
wt=$(mktemp -d /tmp/mutwt-XXXXXX); ev=$(mktemp -d /tmp/mutev-XXXXXX)
git -C /repo worktree add --detach -q "$wt/r" HEAD || exit 2
if ! git -C "$wt/r" apply "$patch"; then echo "patch does not apply"; git -C /repo worktree remove --force "$wt/r"; rm -rf "$wt" "$ev"; exit 2; fi
VERIF_REPO="$wt/r" VERIF_EVDIR="$ev" /verif/check "$prop" "$@" > "$ev/out.txt" 2>&1
rc=$?
echo "exit=$rc violations=$(grep -c '^VIOLATION' "$ev/out.txt") known=$(grep -c '^KNOWN-FINDING' "$ev/out.txt")"
grep -E "counterexample|CHECK-PROBLEM|load error|cannot load" "$ev/out.txt" | cut -c1-300 | head -${TRYMUT_LINES:-2}
git -C /repo worktree remove --force "$wt/r"; rm -rf "$wt" "$ev"
exit $rc
