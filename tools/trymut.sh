#!/bin/sh
# usage: tools/trymut.sh <patch.diff> <PROPERTY> [check args]   (development aid: apply a mutation to /repo, run a check, undo)
patch=$1; prop=$2; shift 2
cd /repo || exit 2
if [ -n "$(git status --porcelain)" ]; then echo "/repo not clean"; exit 2; fi
git apply "$patch" || { echo "patch does not apply"; exit 2; }
/verif/check "$prop" "$@" 2>&1 | grep -E "VIOLATION|KNOWN-FINDING|CHECK-PROBLEM|tier=|counterexample|SPURIOUS" | head -${TRYMUT_LINES:-12}
git -C /repo checkout -- . && git -C /repo clean -fdq
