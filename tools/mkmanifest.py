#!/usr/bin/env python3
"""Regenerate /verif/MANIFEST.json from tools/claims.json (one entry per claimed property)."""
import json, os
here = os.path.dirname(os.path.dirname(os.path.abspath(__file__)))
props = [json.loads(l) for l in open(os.path.join(here, 'properties.jsonl'))]
claims = json.load(open(os.path.join(here, 'tools', 'claims.json')))
m = {"version": 1,
     "setup_cmd": "./build.sh",
     "hooks": {"guard": "verif",
               "enable": "harnesses are overlay files with build tag verif (go/packages Overlay for the engine, go test -overlay for native replay); /repo itself carries no hook code",
               "baseline_off_cmd": "cd /repo && GOFLAGS=-mod=mod GOPROXY=off go test -vet=off -count=1 ./...",
               "source_commits": [], "add_only": True},
     "engines": [{"name": "symgo", "path": "/verif/engine", "serves_properties": sorted(claims["claimed"]),
                  "kind_free_text": "symbolic SSA interpreter for Go (fork of golang.org/x/tools/go/ssa/interp v0.29.0) emitting SMT-LIB2 to z3 5.1.0; depth-first path exploration by re-execution; native replay of counterexamples and passing-path witnesses"}],
     "checks": [],
     "notes": "All checks are bounded solver-based checks of the real code, see DESIGN.md. known_findings.json lists recorded and repaired defects.",
     "not_applicable": []}
for p in props:
    pid = p['id']
    c = claims["claimed"].get(pid)
    if c:
        m["checks"].append({"property_id": pid, "quick_cmd": f"./check {pid} --tier quick", "thorough_cmd": f"./check {pid} --tier thorough",
                            "evidence_file": f"/verif/evidence/{pid}.json", "replay_cmd_template": "cat {path}", "engine": "symgo",
                            "level_claimed": {"category": "model_checking", "text": c["text"], "design_ref": "DESIGN.md section 3, " + pid},
                            "level_note": c["note"], "technique": c.get("technique", "bounded symbolic execution of go/ssa + SMT (z3)")})
    else:
        m["not_applicable"].append({"property_id": pid, "reason": claims["not_applicable"].get(pid, "check not built yet (solver-based harness planned in DESIGN.md section 3)")})
json.dump(m, open(os.path.join(here, 'MANIFEST.json'), 'w'), indent=1)
print("claimed:", sorted(claims["claimed"]))
