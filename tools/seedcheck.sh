#!/bin/sh
# usage: tools/seedcheck.sh <seed dir containing patch.diff and a *_test.go> <package dir relative to repo root> <test run regexp>
# Confirms a seeded change in a scratch worktree: the repository's test suite passes with it, the demonstration fails
# with it and passes without it. Prints one line per step. The worktree is removed afterwards.
seed=$(realpath "$1"); pkg=$2; run=$3
export GOFLAGS=-mod=mod GOPROXY=off GOSUMDB=off GOTOOLCHAIN=local
wt=$(mktemp -d /tmp/seedchk-XXXXXX)
git -C /repo worktree add --detach -q "$wt/r" HEAD || exit 2
cd "$wt/r"
demo=$(ls "$seed"/*_test.go | head -1)
cp "$demo" "$pkg/"
if go test -vet=off -count=1 -run "$run" "./$pkg/" >/dev/null 2>&1; then echo "demo passes without the change: yes"; else echo "demo passes without the change: NO"; fi
rm "$pkg/$(basename "$demo")"
if ! git apply "$seed/patch.diff"; then echo "patch does not apply"; cd /; git -C /repo worktree remove --force "$wt/r"; rm -rf "$wt"; exit 2; fi
if go build ./... 2>&1 | head -3 | grep -q .; then echo "builds with the change: NO"; else echo "builds with the change: yes"; fi
if go test -vet=off -count=1 ./... >"$wt/suite.log" 2>&1; then echo "existing suite passes with the change: yes"; else echo "existing suite passes with the change: NO"; grep -v "^ok" "$wt/suite.log" | head -5; fi
cp "$demo" "$pkg/"
if go test -vet=off -count=1 -run "$run" "./$pkg/" >/dev/null 2>&1; then echo "demo fails with the change: NO"; else echo "demo fails with the change: yes"; fi
cd /; git -C /repo worktree remove --force "$wt/r"; rm -rf "$wt"
