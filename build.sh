#!/bin/sh
# Build /verif/bin/symgo from /verif/engine if it is missing or older than any engine source (offline).
set -e
here=$(cd "$(dirname "$0")" && pwd)
export GOFLAGS=-mod=mod GOPROXY=off GOSUMDB=off GOTOOLCHAIN=local
bin="$here/bin/symgo"
if [ -x "$bin" ] && [ -z "$(find "$here/engine" -newer "$bin" -type f \( -name '*.go' -o -name go.mod -o -name go.sum \) | head -1)" ]; then
  exit 0
fi
mkdir -p "$here/bin"
(cd "$here/engine" && go build -o "$bin" .)
echo "built $bin"
